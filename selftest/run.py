#!/usr/bin/env python3
"""Mutation self-test: does each monitor fire on a realistic, suite-surviving break of its property?

  selftest/run.py [name-substring ...] [--tier quick] [--keep]

For every entry of selftest/mutants.json: copy /repo's working tree to a scratch directory outside
/repo and /verif, apply the textual replacement, run the repository's own test suite against the copy
(the mutant must survive it), run `bin/check <property>` with OLVERIF_REPO=<copy> (evidence/replays
redirected to the scratch dir), expect exit status 1, delete the copy. Results are written to
selftest/results.json.
"""
import json
import os
import shutil
import subprocess
import sys
import tempfile
import time

HERE = os.path.dirname(os.path.abspath(__file__))
VERIF = os.path.dirname(HERE)
REPO = "/repo"


def sh(cmd, **kw):
    return subprocess.run(cmd, capture_output=True, text=True, **kw)


def run_one(m, tier):
    tmp = tempfile.mkdtemp(prefix="olmut-")
    res = {"name": m["name"], "property": m["property"]}
    try:
        copy = os.path.join(tmp, "repo")
        shutil.copytree(REPO, copy, ignore=shutil.ignore_patterns(".git", "__pycache__", "*.egg-info", "img"))
        if "patch" in m:
            p = sh(["git", "apply", "--unsafe-paths", "--directory=" + copy, os.path.join(VERIF, m["patch"])], cwd="/")
            if p.returncode:
                p = sh(["patch", "-p1", "-d", copy, "-i", os.path.join(VERIF, m["patch"])])
            if p.returncode:
                res["status"] = "patch-failed: " + (p.stdout + p.stderr)[-300:]
                return res
        else:
            path = os.path.join(copy, "oneliner", m["file"])
            s = open(path).read()
            if s.count(m["old"]) < 1:
                res["status"] = "pattern-not-found"
                return res
            open(path, "w").write(s.replace(m["old"], m["new"], 1))
        t = sh(["/venv/bin/python", "-m", "pytest", "-q", "-x", "-p", "no:cacheprovider", "oneliner_tests"],
               cwd=copy, env=dict(os.environ, PYTHONPATH=copy, PYTHONDONTWRITEBYTECODE="1"))
        res["suite"] = t.stdout.strip().splitlines()[-1] if t.stdout.strip() else t.stderr[-200:]
        res["survives_suite"] = t.returncode == 0
        props = m["property"] if isinstance(m["property"], list) else [m["property"]]
        res["checks"] = {}
        for prop in props:
            t0 = time.time()
            env = dict(os.environ, OLVERIF_REPO=copy, OLVERIF_OUT=os.path.join(tmp, "out"))
            c = sh([os.path.join(VERIF, "bin", "check"), prop, "--tier", tier], env=env, cwd=VERIF)
            viol = [l for l in c.stdout.splitlines() if l.startswith("VIOLATION")]
            first = ""
            for i, l in enumerate(c.stdout.splitlines()):
                if l.startswith("VIOLATION"):
                    first = "\n".join(c.stdout.splitlines()[i:i + 2])
                    break
            res["checks"][prop] = {"exit": c.returncode, "violations": len(viol), "first": first[:600],
                                   "tail": c.stdout.strip().splitlines()[-1][:300] if c.stdout.strip() else c.stderr[-300:],
                                   "wall_s": round(time.time() - t0, 1)}
        res["caught"] = any(v["exit"] == 1 and v["violations"] for v in res["checks"].values())
        res["status"] = "ok"
        return res
    finally:
        shutil.rmtree(tmp, ignore_errors=True)


def main():
    args = [a for a in sys.argv[1:] if not a.startswith("--")]
    tier = "quick"
    if "--tier" in sys.argv:
        tier = sys.argv[sys.argv.index("--tier") + 1]
        args = [a for a in args if a != tier]
    muts = json.load(open(os.path.join(HERE, "mutants.json")))
    if args:
        muts = [m for m in muts if any(a in m["name"] or a == m["property"] for a in args)]
    out_path = os.path.join(HERE, "results.json")
    try:
        results = {r["name"]: r for r in json.load(open(out_path))}
    except Exception:
        results = {}
    for m in muts:
        r = run_one(m, tier)
        results[m["name"]] = r
        print("%-60s suite=%s caught=%s %s" % (m["name"][:60], r.get("survives_suite"), r.get("caught"),
                                               {k: (v["exit"], v["violations"], v["wall_s"]) for k, v in r.get("checks", {}).items()} or r.get("status")))
        sys.stdout.flush()
        with open(out_path, "w") as f:
            json.dump(sorted(results.values(), key=lambda x: x["name"]), f, indent=1)


if __name__ == "__main__":
    main()
