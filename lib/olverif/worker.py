"""Worker entry point (one subprocess per shard / per host interpreter).

  python -m olverif.worker run <check> <tier> <seed> <shard> <nshards> <outfile> [json-args]
  python -m olverif.worker witness <check> <outfile>
  python -m olverif.worker replay <check> <replayfile>
"""
import importlib
import json
import os
import random
import sys
import traceback


def _load(check):
    return importlib.import_module("olverif.checks." + check.lower())


def main(argv):
    mode, check = argv[0], argv[1]
    from . import rt, contracts, findings
    sys.setrecursionlimit(1000)
    mod = _load(check)
    needs_repo = getattr(mod, "NEEDS_REPO_IMPORT", True)
    if needs_repo:
        rt.load_oneliner()
        contracts.install()
        contracts.MON.enabled = getattr(mod, "MONITORS", True)
    if mode == "run":
        tier, seed, shard, nshards, outfile = argv[2], int(argv[3]), int(argv[4]), int(argv[5]), argv[6]
        args = json.loads(argv[7]) if len(argv) > 7 else {}
        rec = rt.Recorder(mod.ID, tier, seed, shard, nshards)
        rec.args = args
        status = "done"
        try:
            mod.run_shard(rec)
        except BaseException:
            status = "crashed"
            rec.count("worker-crash")
            rec.crash = traceback.format_exc()[-3000:]
        res = rec.result()
        res["status"] = status
        res["crash"] = getattr(rec, "crash", None)
        res["args"] = args
        res["monitors"] = contracts.MON.summary() if needs_repo else {}
        with open(outfile, "w") as f:
            json.dump(res, f, default=repr)
    elif mode == "witness":
        outfile = argv[2]
        out = []
        for kf in findings.for_prop(mod.ID):
            try:
                still, what = mod.run_witness(kf)
            except BaseException as e:
                still, what = None, "witness crashed: %r" % (e,)
            out.append({"id": kf["id"], "still_fails": still, "what": what})
        with open(outfile, "w") as f:
            json.dump(out, f, default=repr)
    elif mode == "replay":
        rp = json.load(open(argv[2]))
        rec = rt.Recorder(mod.ID, "replay", rp.get("seed", 0), 0, 1)
        rec.args = rp.get("args", {})
        mod.replay(rp["case"], rec)
        res = rec.result()
        print(json.dumps({"violations": res["violations"], "held": res["held"], "known": res["known"],
                          "inconclusive": res["inconclusive"]}, indent=1, default=repr))
        sys.exit(1 if res["nviol"] else 0)
    else:
        raise SystemExit("unknown mode " + mode)


if __name__ == "__main__":
    main(sys.argv[1:])
