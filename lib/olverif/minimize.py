"""Statement-level delta debugging of a failing differential case (keeps the symptom)."""
import ast
import copy
import json
import sys

from . import observe, rt


def _blocks(tree):
    for node in ast.walk(tree):
        for f in ("body", "orelse"):
            b = getattr(node, f, None)
            if isinstance(b, list) and b and isinstance(b[0], ast.stmt):
                yield node, f


def symptom_of(src, cfg, mkenv=observe.default_env, globals_cmp=True):
    try:
        o, to = rt.guarded(lambda: observe.differential(src, cfg, mkenv, globals_cmp=globals_cmp), 10)
    except BaseException as e:
        return "harness:" + type(e).__name__
    if to:
        return "timeout"
    return o.status


def minimize(src, cfg, want, mkenv=observe.default_env, globals_cmp=True, rounds=6):
    tree = ast.parse(src)
    best = src
    for _ in range(rounds):
        changed = False
        i = 0
        while True:
            tree = ast.parse(best)
            sites = [(n, f, k) for n, f in _blocks(tree) for k in range(len(getattr(n, f)))]
            if i >= len(sites):
                break
            n, f, k = sites[i]
            b = getattr(n, f)
            del b[k]
            if not b and f == "body":
                b.append(ast.Pass())
            try:
                cand = ast.unparse(ast.fix_missing_locations(tree)) + "\n"
            except Exception:
                i += 1
                continue
            if cand != best and symptom_of(cand, cfg, mkenv, globals_cmp) == want:
                best = cand
                changed = True
            else:
                i += 1
        if not changed:
            break
    return best


def main():
    rt.load_oneliner()
    rp = json.load(open(sys.argv[1]))
    case = rp["case"]
    cfg = tuple(case["cfg"])
    want = symptom_of(case["src"], cfg)
    print("# symptom:", want, "cfg:", cfg)
    out = minimize(case["src"], cfg, want)
    print(out)
    o = observe.differential(out, cfg)
    print("# ->", o.status, o.detail)
    print("#", o.out)


if __name__ == "__main__":
    main()
