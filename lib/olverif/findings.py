"""Known findings: genuine defects of the tree under test that are recorded instead of repaired.

/verif/known_findings.json is committed and never written at run time. A finding is keyed by
*mechanism on the input side*: a named trigger predicate over (source AST, options, host) for the
generative checks, or structured cell coordinates for the finite matrices - never by a case hash
or a random value. A failing case is attributed to a finding only if (a) the finding's trigger
fires on the input and (b) the observed symptom is one the finding lists. Everything else is a
VIOLATION.
"""
import ast
import json
import os
import sys

from . import envs

# OLVERIF_KF: a *stricter* file for experiments on scratch trees (e.g. a finding removed to see what it still explains)
_PATH = os.environ.get("OLVERIF_KF") or os.path.join(envs.VERIF, "known_findings.json")
_cache = None


def load():
    global _cache
    if _cache is None:
        try:
            with open(_PATH) as f:
                _cache = json.load(f)
        except FileNotFoundError:
            _cache = {"findings": [], "fixed": []}
    return _cache


def all_findings():
    return load().get("findings", [])


def for_prop(prop):
    return [k for k in all_findings() if prop in k.get("properties", [])]


def by_id(kid):
    for k in all_findings():
        if k["id"] == kid:
            return k
    return None


# ---------------------------------------------------------------- trigger predicates

class Ctx:
    def __init__(self, src=None, tree=None, cfg=None, host=None, extra=None):
        self.src = src
        self._tree = tree
        self.cfg = cfg
        self.host = host or sys.version_info[:2]
        self.extra = extra or {}
        self._nodes = None

    @property
    def tree(self):
        if self._tree is None and self.src is not None:
            try:
                self._tree = ast.parse(self.src)
            except (SyntaxError, ValueError, RecursionError):
                self._tree = ast.Module(body=[], type_ignores=[])
        return self._tree

    @property
    def nodes(self):
        if self._nodes is None:
            self._nodes = list(ast.walk(self.tree)) if self.tree is not None else []
        return self._nodes


TRIGGERS = {}


def trigger(name):
    def deco(fn):
        TRIGGERS[name] = fn
        return fn
    return deco


def _walk_no_scopes(node):
    """Walk the parts of a statement/expression that are evaluated in the *current* scope: nested
    function/class/lambda bodies are not entered (their decorators, defaults, bases are)."""
    def roots(n):
        if isinstance(n, (ast.FunctionDef, ast.AsyncFunctionDef)):
            return list(n.decorator_list) + list(n.args.defaults) + [d for d in n.args.kw_defaults if d is not None]
        if isinstance(n, ast.ClassDef):
            return list(n.decorator_list) + list(n.bases) + [k.value for k in n.keywords]
        if isinstance(n, ast.Lambda):
            return list(n.args.defaults) + [d for d in n.args.kw_defaults if d is not None]
        return None
    r = roots(node)
    stack = list(r) if r is not None else [node]
    while stack:
        n = stack.pop()
        yield n
        for c in ast.iter_child_nodes(n):
            r = roots(c)
            if r is not None:
                stack.extend(r)
                continue
            stack.append(c)


@trigger("walrus_in_loop_header")
def _t_walrus_header(c):
    """D8b: a walrus inside a `while` test or a `for` iterable (both end up in a comprehension iterable)."""
    for n in c.nodes:
        if isinstance(n, ast.While):
            if any(isinstance(x, ast.NamedExpr) for x in ast.walk(n.test)):
                return True
        if isinstance(n, ast.For):
            if any(isinstance(x, ast.NamedExpr) for x in ast.walk(n.iter)):
                return True
    return False


def _is_private(name):
    return name.startswith("__") and not name.endswith("__")


@trigger("private_name_in_class")
def _t_private(c):
    """D9d: an identifier `__x` (no trailing `__`) used inside a class statement (mangling)."""
    for n in c.nodes:
        if isinstance(n, ast.ClassDef):
            for x in ast.walk(n):
                if isinstance(x, ast.Name) and _is_private(x.id):
                    return True
                if isinstance(x, ast.Attribute) and _is_private(x.attr):
                    return True
                if isinstance(x, ast.arg) and _is_private(x.arg):
                    return True
                if isinstance(x, (ast.FunctionDef, ast.ClassDef)) and x is not n and _is_private(x.name):
                    return True
    return False


@trigger("unsupported_after_interrupt")
def _t_dead_unsupported(c):
    """D14b: an unsupported statement that follows break/continue/return in the same block."""
    from . import unsupported
    for n in c.nodes:
        for field in ("body", "orelse"):
            block = getattr(n, field, None)
            if not isinstance(block, list):
                continue
            seen = False
            for s in block:
                if seen:
                    sub = ast.Module(body=[s], type_ignores=[])
                    for x in ast.walk(sub):
                        if isinstance(x, unsupported._UNSUPPORTED_NODES):
                            return True
                        if isinstance(x, ast.ImportFrom) and any(a.name == "*" for a in x.names):
                            return True
                if isinstance(s, (ast.Break, ast.Continue, ast.Return)):
                    seen = True
    return False


@trigger("starred_comprehension_target")
def _t_star_comp(c):
    for n in c.nodes:
        if isinstance(n, ast.comprehension):
            if any(isinstance(x, ast.Starred) for x in ast.walk(n.target)):
                return True
    return False


@trigger("comprehension_or_lambda_in_class_reads_class_name")
def _t_class_comp(c):
    """D20: a comprehension/lambda directly in a class body mentions a name bound in that body."""
    for n in c.nodes:
        if not isinstance(n, ast.ClassDef):
            continue
        bound = set()
        for s in n.body:
            for x in _walk_no_scopes(s):
                if isinstance(x, ast.Name) and isinstance(x.ctx, ast.Store):
                    bound.add(x.id)
                elif isinstance(x, ast.alias):
                    bound.add((x.asname or x.name).split(".")[0])
            if isinstance(s, (ast.FunctionDef, ast.ClassDef)):
                bound.add(s.name)
            # a name declared global/nonlocal in the class body: the declaration does not extend to
            # the nested expression scopes, which the rewriter resolves through the class's symbols
            for x in ast.walk(s) if not isinstance(s, (ast.FunctionDef, ast.ClassDef)) else []:
                if isinstance(x, (ast.Global, ast.Nonlocal)):
                    bound.update(x.names)
        if not bound:
            continue
        for s in n.body:
            for x in _walk_no_scopes(s):
                if isinstance(x, (ast.ListComp, ast.SetComp, ast.DictComp, ast.GeneratorExp)):
                    inner = [x.elt] if not isinstance(x, ast.DictComp) else [x.key, x.value]
                    for g in x.generators[1:]:
                        inner.append(g.iter)
                    for g in x.generators:
                        inner.extend(g.ifs)
                    for e in inner:
                        for y in ast.walk(e):
                            if isinstance(y, ast.Name) and y.id in bound:
                                return True
            # lambdas are skipped by _walk_no_scopes -> look at them explicitly
            for x in ast.walk(s):
                if isinstance(x, (ast.FunctionDef, ast.ClassDef)) and x is not s:
                    pass
            if not isinstance(s, (ast.FunctionDef, ast.ClassDef)):
                for x in ast.walk(s):
                    if isinstance(x, ast.Lambda):
                        for y in ast.walk(x.body):
                            if isinstance(y, ast.Name) and y.id in bound:
                                return True
    return False


@trigger("walrus_inside_lambda")
def _t_walrus_lambda(c):
    """D23: a walrus inside a lambda body binds a lambda-local in Python."""
    for n in c.nodes:
        if isinstance(n, ast.Lambda):
            if any(isinstance(x, ast.NamedExpr) for x in ast.walk(n.body)):
                return True
    return False


@trigger("class_body_reads_before_binding")
def _t_class_preread(c):
    """D9e: a class body loads a name before binding it in the same body."""
    for n in c.nodes:
        if not isinstance(n, ast.ClassDef):
            continue
        bound_later = set()
        for s in n.body:
            for x in _walk_no_scopes(s):
                if isinstance(x, ast.Name) and isinstance(x.ctx, ast.Store):
                    bound_later.add(x.id)
            if isinstance(s, (ast.FunctionDef, ast.ClassDef)):
                bound_later.add(s.name)
        seen_bound = set()
        for s in n.body:
            loads = [x.id for x in _walk_no_scopes(s) if isinstance(x, ast.Name) and isinstance(x.ctx, ast.Load)]
            if isinstance(s, ast.AugAssign) and isinstance(s.target, ast.Name):
                loads.append(s.target.id)
            for name in loads:
                if name in bound_later and name not in seen_bound:
                    return True
            for x in _walk_no_scopes(s):
                if isinstance(x, ast.Name) and isinstance(x.ctx, ast.Store):
                    seen_bound.add(x.id)
            if isinstance(s, (ast.FunctionDef, ast.ClassDef)):
                seen_bound.add(s.name)
    return False


# since fix 224d939 the generated code reaches builtins through the builtins module; only the cell spelling is left
BUILTIN_HELPERS = ("__class__",)


@trigger("binds_builtin_used_by_helpers")
def _t_builtin(c):
    """D10: the source binds (any role) the spelling of a builtin that generated code calls."""
    names = set(c.extra.get("risky", BUILTIN_HELPERS))
    for n in c.nodes:
        if isinstance(n, ast.Name) and isinstance(n.ctx, (ast.Store, ast.Del)) and n.id in names:
            return True
        if isinstance(n, ast.arg) and n.arg in names:
            return True
        if isinstance(n, (ast.FunctionDef, ast.ClassDef)) and n.name in names:
            return True
        if isinstance(n, ast.alias) and (n.asname or n.name).split(".")[0] in names:
            return True
        if isinstance(n, (ast.Global, ast.Nonlocal)) and names & set(n.names):
            return True
    return False


def _hard_char(value):
    if isinstance(value, bytes):
        value = value.decode("latin-1")
    for ch in value:
        o = ord(ch)
        if ch in "'\"\\" or o < 32 or 127 <= o <= 255 or 0xD800 <= o <= 0xDFFF:
            return True
    return False


def fstring_hard(tree):
    """An f-string whose one-line rendering on a host < 3.12 needs a backslash / an inner quote
    character (any string piece below it has one) or three or more nested quote levels."""
    # (node, quote level of the innermost enclosing f-string; 0 = not inside an f-string)
    stack = [(tree, 0)]
    while stack:
        n, lvl = stack.pop()
        if isinstance(n, ast.JoinedStr):
            mine = lvl + 1
            if mine >= 3:
                return True
            for v in n.values:
                if isinstance(v, ast.Constant):
                    if isinstance(v.value, (str, bytes)) and _hard_char(v.value):
                        return True
                else:
                    stack.append((v, mine))
            continue
        if isinstance(n, ast.FormattedValue):
            stack.append((n.value, lvl))
            if n.format_spec is not None:
                # the spec shares the quote level of its f-string
                for v in n.format_spec.values:
                    if isinstance(v, ast.Constant):
                        if isinstance(v.value, (str, bytes)) and _hard_char(v.value):
                            return True
                    else:
                        stack.append((v, lvl))
            continue
        if isinstance(n, ast.Constant) and isinstance(n.value, (str, bytes)) and lvl >= 1:
            if lvl + 1 >= 3 or _hard_char(n.value):
                return True
            continue
        for c in ast.iter_child_nodes(n):
            stack.append((c, lvl))
    return False


@trigger("pre312_fstring_hard")
def _t_fstring_pre312(c):
    if tuple(c.host) >= (3, 12):
        return False
    if c.cfg is not None and c.cfg[0] != "oneliner":
        return False
    return fstring_hard(c.tree)


def cpython_inlined_comprehension_cell_bug(tree):
    """Reference-model defect (CPython 3.12.1 and 3.13.0, measured): after an inlined comprehension whose
    target N is captured by a lambda inside the comprehension, a *free* variable N of the enclosing function
    reads the comprehension's last value. Programs of that shape are out of the domain on hosts >= 3.12:
    comprehension target N + a lambda inside that comprehension mentioning N + N mentioned elsewhere."""
    names_outside = {}
    comps = [n for n in ast.walk(tree) if isinstance(n, (ast.ListComp, ast.SetComp, ast.DictComp))]
    if not comps:
        return False
    all_names = [n.id for n in ast.walk(tree) if isinstance(n, ast.Name)]
    for c in comps:
        targets = set()
        for g in c.generators:
            targets.update(x.id for x in ast.walk(g.target) if isinstance(x, ast.Name))
        inside = [x.id for x in ast.walk(c) if isinstance(x, ast.Name)]
        for t in targets:
            captured = any(isinstance(l, ast.Lambda) and any(isinstance(y, ast.Name) and y.id == t for y in ast.walk(l))
                           for l in ast.walk(c))
            if captured and all_names.count(t) > inside.count(t):
                return True
    return False


def cpython_sibling_inlined_comprehensions(tree):
    """Reference-model defect no. 2 (CPython 3.12.1 and 3.13.0, measured; 3.10/3.11 are right): in one function, an inlined
    comprehension A binds N and a *sibling* inlined comprehension B (neither inside the other) reads N as a global or free
    variable -> `UnboundLocalError` (`lambda: [[x for x in [1]], [x for t in [2]]]`). Predicate on a tree (source or
    emitted text): such a pair exists in some function scope."""
    COMPS = (ast.ListComp, ast.SetComp, ast.DictComp)
    SCOPES = (ast.Lambda, ast.FunctionDef, ast.AsyncFunctionDef, ast.GeneratorExp, ast.ClassDef)

    def targets(c):
        out = set()
        for g in c.generators:
            out.update(x.id for x in ast.walk(g.target) if isinstance(x, ast.Name))
        return out

    def scan(scope_body_nodes):
        # comprehensions inlined into this scope: (node, names bound by it and by the comprehensions around it)
        found = []
        stack = [(n, frozenset()) for n in scope_body_nodes]
        nested_scopes = []
        while stack:
            n, bound = stack.pop()
            if isinstance(n, SCOPES):
                nested_scopes.append(n)
                continue
            if isinstance(n, COMPS):
                mine = bound | targets(n)
                found.append((n, mine))
                for ch in ast.iter_child_nodes(n):
                    stack.append((ch, mine))
                continue
            for ch in ast.iter_child_nodes(n):
                stack.append((ch, bound))
        for a, abound in found:
            ta = targets(a)
            inside_a = {id(x) for x in ast.walk(a)}
            for b, bbound in found:
                if b is a or id(b) in inside_a or id(a) in {id(x) for x in ast.walk(b)}:
                    continue
                for x in ast.walk(b):
                    if isinstance(x, ast.Name) and isinstance(x.ctx, ast.Load) and x.id in ta and x.id not in bbound:
                        return True, nested_scopes
            # variant 3 (measured on 3.12.1 and 3.13.0): a *function* nested in the same scope, outside A, reads N as a free
            # variable -> it is bound to A's (empty) cell: `def f(): [x for x in [1]]; g = lambda: x; g()` with x from
            # further out raises NameError "cannot access free variable 'x'"
            for sc in nested_scopes:
                if id(sc) in inside_a or isinstance(sc, ast.ClassDef):
                    continue
                own = set()
                if isinstance(sc, (ast.Lambda, ast.FunctionDef, ast.AsyncFunctionDef)):
                    ar = sc.args
                    own = {x.arg for x in ar.posonlyargs + ar.args + ar.kwonlyargs} | {y.arg for y in (ar.vararg, ar.kwarg) if y}
                body = [sc.body] if isinstance(sc, ast.Lambda) else (sc.body if isinstance(sc, (ast.FunctionDef, ast.AsyncFunctionDef)) else [sc])
                for part in body:
                    for x in ast.walk(part):
                        if isinstance(x, ast.Name) and isinstance(x.ctx, ast.Load) and x.id in ta and x.id not in own:
                            return True, nested_scopes
        return False, nested_scopes

    todo = [list(ast.iter_child_nodes(tree))]
    while todo:
        hit, nested = scan(todo.pop())
        if hit:
            return True
        for sc in nested:
            todo.append(list(ast.iter_child_nodes(sc)))
    return False


@trigger("always")
def _t_always(c):
    return True


def triggered(prop, src=None, cfg=None, tree=None, host=None, extra=None):
    ctx = Ctx(src=src, tree=tree, cfg=cfg, host=host, extra=extra)
    out = []
    for kf in for_prop(prop):
        name = kf.get("trigger")
        if not name or name not in TRIGGERS:
            continue
        want_cfg = kf.get("when_cfg")
        if want_cfg and cfg is not None:
            if any(w not in ("*", None) and w != c for w, c in zip(want_cfg, cfg)):
                continue
        try:
            if TRIGGERS[name](ctx):
                out.append(kf)
        except RecursionError:
            pass
    return out


def attribute(trig, symptom):
    """Id of the first triggered finding that lists the symptom (prefix match), else None."""
    for kf in trig:
        for s in kf.get("symptoms", []):
            if symptom == s or symptom.startswith(s):
                return kf["id"]
    return None


def cells(kid, prop=None):
    kf = by_id(kid)
    if not kf:
        return []
    return kf.get("cells", [])
