"""Paths, interpreters, option combinations, dependency bootstrap.

Everything here must import on Python 3.8+ (the C15 runtime runner imports nothing
from this package, but workers for hosts 3.10-3.13 do).
"""
import itertools
import os
import subprocess
import sys

VERIF = os.path.dirname(os.path.dirname(os.path.dirname(os.path.abspath(__file__))))
REPO = os.path.abspath(os.environ.get("OLVERIF_REPO", "/repo"))
LIB = os.path.join(VERIF, "lib")
DEPS = os.path.join(VERIF, ".deps")
WHEELS = "/opt/veriftools/wheels"
GUARD = "ONELINER_PY_VERIF"

PYENV = "/root/.pyenv/versions"
_CANDIDATES = {
    "3.8": [PYENV + "/3.8.18/bin/python"],
    "3.9": [PYENV + "/3.9.18/bin/python"],
    "3.10": [PYENV + "/3.10.13/bin/python"],
    "3.11": [PYENV + "/3.11.7/bin/python"],
    "3.12": ["/venv/bin/python", PYENV + "/3.12.1/bin/python"],
    "3.13": [PYENV + "/3.13.0/bin/python"],
}

UNPARSERS = ["ast.unparse", "oneliner"]
WRAPPERS = ["list", "chain_call"]
IFSTYLES = ["if_expr", "short_circuit"]
CFGS = [tuple(c) for c in itertools.product(UNPARSERS, WRAPPERS, IFSTYLES)]
DEFAULT_CFG = ("ast.unparse", "chain_call", "if_expr")

_interp_cache = {}


def interpreter(minor):
    """Path of a working interpreter for e.g. '3.11', or None (-> inconclusive cell)."""
    if minor in _interp_cache:
        return _interp_cache[minor]
    found = None
    for cand in _CANDIDATES.get(minor, []):
        if not os.path.exists(cand):
            continue
        try:
            out = subprocess.run(
                [cand, "-c", "import sys;print('%d.%d'%sys.version_info[:2])"],
                capture_output=True, text=True, timeout=30,
            )
        except Exception:
            continue
        if out.returncode == 0 and out.stdout.strip() == minor:
            found = cand
            break
    _interp_cache[minor] = found
    return found


def main_python():
    return interpreter("3.12") or sys.executable


def ensure_deps(verbose=False):
    """Install icontract (pure python) into the git-ignored /verif/.deps when absent.

    Returns the name of the contract engine that will be used: 'icontract' or 'shim'.
    """
    marker = os.path.join(DEPS, "icontract", "__init__.py")
    if not os.path.exists(marker):
        py = main_python()
        cmd = [py, "-m", "pip", "install", "--quiet", "--no-index", "--find-links", WHEELS,
               "--target", DEPS, "icontract"]
        try:
            p = subprocess.run(cmd, capture_output=True, text=True, timeout=300,
                               env=dict(os.environ, PIP_NO_INDEX="1", PIP_DISABLE_PIP_VERSION_CHECK="1"))
            if verbose:
                sys.stderr.write(p.stdout + p.stderr)
        except Exception as e:  # pragma: no cover
            if verbose:
                sys.stderr.write("deps install failed: %r\n" % (e,))
    return "icontract" if os.path.exists(marker) else "shim"


def worker_env(extra=None, hashseed="0"):
    env = dict(os.environ)
    env["PYTHONPATH"] = os.pathsep.join([LIB, DEPS])
    env["PYTHONDONTWRITEBYTECODE"] = "1"
    env["PYTHONHASHSEED"] = hashseed
    env["OLVERIF_REPO"] = REPO
    env[GUARD] = "1"
    env.pop("PYTHONSTARTUP", None)
    if extra:
        env.update(extra)
    return env


def repo_state():
    """HEAD + dirty-tree hash of the tree under test (recorded in evidence and replays)."""
    def git(*a):
        try:
            return subprocess.run(["git", "-C", REPO] + list(a), capture_output=True, text=True,
                                  timeout=30).stdout.strip()
        except Exception:
            return ""
    head = git("rev-parse", "HEAD")
    diff = git("diff", "HEAD")
    import hashlib
    return {"repo": REPO, "head": head,
            "dirty": hashlib.sha1(diff.encode()).hexdigest()[:12] if diff else ""}
