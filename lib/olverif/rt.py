"""Worker-side runtime: import of the tree under test, recorder, per-case watchdog."""
import hashlib
import json
import os
import signal
import sys
import time

from . import envs


class CaseTimeout(BaseException):
    pass


def _alarm(*_a):
    raise CaseTimeout()


_oneliner = None


def load_oneliner():
    """Import `oneliner` from the tree under test and make sure it really is that tree."""
    global _oneliner
    if _oneliner is not None:
        return _oneliner
    repo = envs.REPO
    if sys.path[0] != repo:
        sys.path.insert(0, repo)
    import oneliner  # noqa
    f = os.path.abspath(oneliner.__file__)
    if not f.startswith(repo + os.sep):
        raise RuntimeError("oneliner imported from %s, expected under %s" % (f, repo))
    _oneliner = oneliner
    return oneliner


def mkcfg(cfg):
    """Options object for a (unparser, expr_wrapper, if_style) tuple; None -> no options."""
    if cfg is None:
        return None
    from oneliner.config import Configs
    c = Configs()
    c.unparser, c.expr_wrapper, c.if_style = cfg
    return c


def h8(obj):
    if not isinstance(obj, (bytes, str)):
        obj = json.dumps(obj, sort_keys=True, default=repr)
    if isinstance(obj, str):
        obj = obj.encode("utf8", "surrogatepass")
    return hashlib.blake2b(obj, digest_size=6).hexdigest()


class Recorder:
    """Collects what one shard observed. Three-valued per case: held / violated / inconclusive."""

    MAX_VIOL = 40
    MAX_SAMPLES = 4

    def __init__(self, prop, tier, seed, shard, nshards):
        self.prop = prop
        self.tier = tier
        self.seed = seed
        self.shard = shard
        self.nshards = nshards
        self.evaluations = 0
        self.held = 0
        self.nontrivial = set()
        self.counters = {}
        self.inconclusive = {}
        self.known = {}
        self.violations = []
        self.nviol = 0
        self.samples = []
        self.sets = {}
        self.t0 = time.time()
        self.budget = float(os.environ.get("VERIF_BUDGET_S", "0") or 0)
        self.truncated = 0
        # case-in-flight marker: if the *interpreter* dies on a case (measured: CPython 3.12/3.13 segfault on a few
        # scope shapes), the driver reads the marker, reruns the shard and skips that case (inconclusive, never held)
        self._marker_fd = None
        mp = os.environ.get("OLVERIF_MARKER")
        if mp:
            self._marker_fd = os.open(mp, os.O_WRONLY | os.O_CREAT, 0o600)
        try:
            self.skip = set(json.loads(os.environ.get("OLVERIF_SKIP", "[]")))
        except ValueError:
            self.skip = set()

    def begin_case(self, key):
        """Returns False if the case must be skipped because the interpreter died on it in an earlier attempt."""
        k = h8(key)
        if k in self.skip:
            self.inconc("interpreter-died-on-this-case-in-an-earlier-attempt")
            return False
        if self._marker_fd is not None:
            os.pwrite(self._marker_fd, k.encode(), 0)
        nth = os.environ.get("OLVERIF_TEST_DIE_NTH")      # self-test hook of the rerun mechanism only
        if nth and not self.skip:
            self._n_begin = getattr(self, "_n_begin", 0) + 1
            if self._n_begin == int(nth):
                os.kill(os.getpid(), signal.SIGSEGV)
        return True

    def _unused(self):
        pass

    # -- budget (only used when VERIF_BUDGET_S is set; otherwise sizes are logical)
    def out_of_budget(self):
        return bool(self.budget) and (time.time() - self.t0) > self.budget

    def count(self, name, n=1):
        self.counters[name] = self.counters.get(name, 0) + n

    def note(self, setname, item):
        s = self.sets.setdefault(setname, set())
        if len(s) < 5000:
            s.add(item)

    def ok(self, key=None, nontrivial=True):
        """One execution reached the oracle and held. key identifies the distinct case."""
        self.evaluations += 1
        self.held += 1
        if nontrivial and key is not None:
            self.nontrivial.add(h8(key))

    def inconc(self, reason):
        self.inconclusive[reason] = self.inconclusive.get(reason, 0) + 1

    def known_finding(self, kf_id, key=None):
        self.evaluations += 1
        self.known[kf_id] = self.known.get(kf_id, 0) + 1

    def violation(self, symptom, case, detail=None, mech=None):
        """case: JSON-able spec that `bin/check <ID> --replay` can re-run."""
        self.evaluations += 1
        self.nviol += 1
        if len(self.violations) < self.MAX_VIOL:
            v = {"symptom": symptom, "case": case, "detail": detail, "mech": mech}
            self.violations.append(v)
            # sidecar, written at once: a worker that is killed later (OOM, timeout) has still witnessed this
            sp = os.environ.get("OLVERIF_SIDECAR")
            if sp:
                try:
                    with open(sp, "a") as f:
                        f.write(json.dumps(v, default=repr) + "\n")
                except (OSError, TypeError, ValueError):
                    pass

    def sample(self, obj, force=False):
        if force or len(self.samples) < self.MAX_SAMPLES:
            self.samples.append(obj)

    def result(self):
        return {
            "prop": self.prop, "shard": self.shard, "evaluations": self.evaluations, "held": self.held,
            "nontrivial": sorted(self.nontrivial), "counters": self.counters,
            "inconclusive": self.inconclusive, "known": self.known, "violations": self.violations,
            "nviol": self.nviol, "samples": self.samples,
            "sets": {k: sorted(map(str, v)) for k, v in self.sets.items()},
            "truncated": self.truncated, "wall_s": round(time.time() - self.t0, 2),
            "python": "%d.%d.%d" % sys.version_info[:3],
            "oneliner_file": getattr(_oneliner, "__file__", None),
        }


def guarded(fn, seconds=20):
    """Run fn() under a wall-clock watchdog. Returns (value, None) or (None, 'timeout')."""
    old = signal.signal(signal.SIGALRM, _alarm)
    signal.alarm(seconds)
    try:
        return fn(), None
    except CaseTimeout:
        return None, "timeout"
    finally:
        signal.alarm(0)
        signal.signal(signal.SIGALRM, old)


def run_suite_with_contracts(rec, props):
    """Workload: the repository's own tests with the contracts on. A contract that fires there is either too strict
    or a defect the tests do not assert; events of the given properties become violations."""
    import json
    import subprocess
    import tempfile
    fd, out = tempfile.mkstemp(suffix=".json")
    os.close(fd)
    env = envs.worker_env({"OLVERIF_PYTEST_OUT": out})
    env["PYTHONPATH"] = os.pathsep.join([envs.REPO, envs.LIB, envs.DEPS])
    try:
        p = subprocess.run([sys.executable, "-m", "pytest", "-q", "-p", "no:cacheprovider", "-p", "olverif.pytest_plugin",
                            "oneliner_tests"], cwd=envs.REPO, env=env, capture_output=True, text=True, timeout=1800)
        try:
            data = json.load(open(out))
        except Exception:
            rec.inconc("suite-with-contracts-did-not-report")
            return
    finally:
        try:
            os.unlink(out)
        except OSError:
            pass
    if not os.path.abspath(data.get("oneliner_file", "")).startswith(envs.REPO + os.sep):
        rec.inconc("suite-with-contracts-imported-another-tree")
        return
    ev = data["summary"].get("evaluations", {})
    for k, v in ev.items():
        rec.count("suite-run contract evaluations:" + k, v)
    for e in data.get("events", []):
        if e.get("prop") in props:
            rec.violation("suite-case:" + str(e.get("detail")), {"kind": "suite", "input": e.get("input")}, e)
    rec.count("suite-run-with-contracts")
    rec.ok(("suite-with-contracts", tuple(sorted(props))), nontrivial=True)
