"""AST normal form used by every round-trip comparison (DESIGN 2.2).

Normalised away (and nothing else):
  * positions; `ctx` (the converter builds Name nodes without / with the wrong ctx);
  * missing optional fields are defaulted; `Constant.kind` (u'' prefix is not a value);
  * UnaryOp(USub, Constant(n>=0)) and Constant(-n) are one form;
  * inside JoinedStr: empty string constants dropped, adjacent string constants merged
    (the 3.12.1 parser appends Constant('') to a format spec that ends in a field).
"""
import ast

_SKIP = {"ctx", "kind", "lineno", "col_offset", "end_lineno", "end_col_offset", "type_comment",
         "type_ignores"}


def _const(v):
    # type and repr: 1 vs 1.0 vs True, -0.0 vs 0.0, nan-safe
    return ("K", type(v).__name__, repr(v))


def _joined(values):
    out = []
    for v in values:
        if isinstance(v, ast.Constant) and isinstance(v.value, str):
            if v.value == "":
                continue
            if out and out[-1][0] == "S":
                out[-1] = ("S", out[-1][1] + v.value)
            else:
                out.append(("S", v.value))
        else:
            out.append(norm(v))
    return tuple(out)


def norm(node):
    if isinstance(node, ast.AST):
        if isinstance(node, ast.Constant):
            return _const(node.value)
        if isinstance(node, ast.UnaryOp) and isinstance(node.op, ast.USub) \
                and isinstance(node.operand, ast.Constant) \
                and type(node.operand.value) in (int, float, complex):
            v = node.operand.value
            try:
                neg = -v
            except Exception:
                neg = None
            if neg is not None and not (isinstance(v, (int, float)) and v < 0):
                return _const(neg)
        if isinstance(node, ast.JoinedStr):
            return ("JoinedStr", _joined(node.values))
        t = type(node)
        fields = []
        for name in t._fields:
            if name in _SKIP:
                continue
            val = getattr(node, name, None)
            if isinstance(node, ast.FormattedValue) and name == "conversion" and val is None:
                val = -1
            if isinstance(node, ast.comprehension) and name == "is_async":
                val = int(bool(val))
            fields.append((name, norm(val)))
        return (t.__name__, tuple(fields))
    if isinstance(node, list):
        return tuple(norm(x) for x in node)
    return node


def same(a, b):
    return norm(a) == norm(b)


def first_diff(a, b, path="$"):
    """Path of the first difference between two normal forms (for reports)."""
    if a == b:
        return None
    if isinstance(a, tuple) and isinstance(b, tuple) and len(a) == len(b):
        for i, (x, y) in enumerate(zip(a, b)):
            d = first_diff(x, y, path + "/" + (x[0] if isinstance(x, tuple) and x and isinstance(x[0], str) else str(i)))
            if d:
                return d
    return "%s: %r != %r" % (path, _short(a), _short(b))


def _short(x):
    s = repr(x)
    return s if len(s) < 160 else s[:160] + "..."
