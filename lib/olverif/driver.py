"""Driver: shards a check over worker subprocesses, merges what they observed, applies the
verdict discipline, writes evidence + replay files and prints VIOLATION / KNOWN-FINDING lines."""
import argparse
import hashlib
import importlib
import json
import os
import shutil
import subprocess
import sys
import tempfile
import time

from . import envs, findings

# OLVERIF_OUT redirects evidence/ and replays/ (used by the mutation self-test so that it never
# overwrites the evidence of the real tree)
OUT = os.environ.get("OLVERIF_OUT") or envs.VERIF
NCPU = int(os.environ.get("OLVERIF_JOBS", "0") or 0) or min(16, os.cpu_count() or 4)


def _mod(check):
    return importlib.import_module("olverif.checks." + check.lower())


def default_jobs(tier, seed, nshards=None, hosts=("3.12",)):
    n = nshards or NCPU
    return [{"host": h, "shard": i, "nshards": n, "args": {}} for h in hosts for i in range(n)]


def run_jobs(check, tier, seed, jobs, tmp, timeout):
    """Run worker subprocesses, at most NCPU at a time. Returns list of (job, result|None, err)."""
    pending = list(enumerate(jobs))
    running = []
    done = []
    while pending or running:
        while pending and len(running) < NCPU:
            idx, job = pending.pop(0)
            py = envs.interpreter(job["host"])
            if py is None:
                done.append((job, None, "missing-interpreter:" + job["host"]))
                continue
            outfile = os.path.join(tmp, "r%d.json" % idx)
            cmd = [py, "-X", "faulthandler", "-m", "olverif.worker", "run", check, tier, str(seed),
                   str(job["shard"]), str(job["nshards"]), outfile, json.dumps(job.get("args", {}))]
            env = envs.worker_env(job.get("env"), hashseed=str(job.get("hashseed", "0")))
            env["OLVERIF_MARKER"] = os.path.join(tmp, "m%d.txt" % idx)
            env["OLVERIF_SKIP"] = json.dumps(job.get("_skip", []))
            env["OLVERIF_SIDECAR"] = os.path.join(tmp, "v%d.jsonl" % idx)
            errf = open(os.path.join(tmp, "e%d.txt" % idx), "w+")
            p = subprocess.Popen(cmd, stdout=errf, stderr=subprocess.STDOUT, env=env, cwd=tmp)
            running.append((p, job, outfile, errf, time.time()))
        still = []
        for p, job, outfile, errf, t0 in running:
            rc = p.poll()
            if rc is None:
                if time.time() - t0 > timeout:
                    p.kill()
                    p.wait()
                    done.append((job, None, "worker-timeout"))
                    errf.close()
                else:
                    still.append((p, job, outfile, errf, t0))
                continue
            res = None
            err = None
            if os.path.exists(outfile):
                try:
                    res = json.load(open(outfile))
                except Exception as e:
                    err = "bad-result:%r" % (e,)
            else:
                errf.seek(0)
                err = "worker-died rc=%s: %s" % (rc, errf.read()[-1500:])
                # the interpreter itself died (signal): rerun the shard without the case that was in flight
                marker = os.path.join(tmp, "m%d.txt" % jobs.index(job))
                if rc is not None and rc < 0 and os.path.exists(marker) and len(job.get("_skip", [])) < 8:
                    key = open(marker).read().strip()
                    if key and key not in job.get("_skip", []):
                        job.setdefault("_skip", []).append(key)
                        job.setdefault("_died_on", []).append(key)
                        os.unlink(marker)
                        errf.close()
                        pending.append((jobs.index(job), job))
                        continue
            errf.close()
            done.append((job, res, err))
        running = still
        if running:
            time.sleep(0.05)
    for job, res, err in done:
        if res is None and "shard" in job:
            sc = os.path.join(tmp, "v%d.jsonl" % jobs.index(job))
            if os.path.exists(sc):
                seen = set()
                for line in open(sc):
                    try:
                        v = json.loads(line)
                    except ValueError:
                        continue
                    k = json.dumps(v, sort_keys=True)
                    if k not in seen:
                        seen.add(k)
                        job.setdefault("_sidecar", []).append(v)
    return done


def merge(results):
    m = {"evaluations": 0, "held": 0, "nontrivial": set(), "counters": {}, "inconclusive": {}, "known": {},
         "violations": [], "nviol": 0, "samples": [], "sets": {}, "monitors": {}, "pythons": set(),
         "files": set(), "crashes": [], "truncated": 0, "engine": set()}
    for job, res, err in results:
        if res is None:
            m["inconclusive"][err.split(":")[0]] = m["inconclusive"].get(err.split(":")[0], 0) + 1
            # violations the worker witnessed before it died / was stopped are still violations
            for v in job.get("_sidecar", []):
                m["violations"].append(dict(v, host=job["host"], args=job.get("args", {})))
                m["nviol"] += 1
            if err.startswith("missing-interpreter"):
                # the cells of that interpreter are inconclusive (recorded), the rest of the check still decides
                m["inconclusive"][err] = m["inconclusive"].get(err, 0) + 1
                continue
            m["crashes"].append({"job": job, "error": err})
            continue
        if res.get("status") == "crashed":
            m["crashes"].append({"job": job, "error": res.get("crash")})
            m["inconclusive"]["worker-crash"] = m["inconclusive"].get("worker-crash", 0) + 1
        if job.get("_died_on"):
            m["inconclusive"]["interpreter-died-on-a-case (shard rerun without it)"] = m["inconclusive"].get(
                "interpreter-died-on-a-case (shard rerun without it)", 0) + len(job["_died_on"])
        m["evaluations"] += res["evaluations"]
        m["held"] += res["held"]
        m["nontrivial"].update(res["nontrivial"])
        for k, v in res["counters"].items():
            m["counters"][k] = m["counters"].get(k, 0) + v
        for k, v in res["inconclusive"].items():
            m["inconclusive"][k] = m["inconclusive"].get(k, 0) + v
        for k, v in res["known"].items():
            m["known"][k] = m["known"].get(k, 0) + v
        for v in res["violations"]:
            v = dict(v, host=job["host"], args=job.get("args", {}))
            m["violations"].append(v)
        m["nviol"] += res["nviol"]
        if len(m["samples"]) < 6:
            m["samples"].extend(res["samples"][:2])
        for k, v in res["sets"].items():
            m["sets"].setdefault(k, set()).update(v)
        for k, v in res.get("monitors", {}).get("evaluations", {}).items():
            m["monitors"][k] = m["monitors"].get(k, 0) + v
        if res.get("monitors", {}).get("engine"):
            m["engine"].add(res["monitors"]["engine"])
        m["pythons"].add(res["python"])
        if res.get("oneliner_file"):
            m["files"].add(res["oneliner_file"])
        m["truncated"] += res.get("truncated", 0)
    return m


def write_replays(prop, violations, tier, seed):
    d = os.path.join(OUT, "replays", prop)
    os.makedirs(d, exist_ok=True)
    out = []
    state = envs.repo_state()
    seen = set()
    for v in violations:
        body = {"property": prop, "tier": tier, "seed": seed, "symptom": v["symptom"], "case": v["case"],
                "detail": v.get("detail"), "host": v.get("host"), "args": v.get("args"), "repo": state}
        key = hashlib.sha1(json.dumps([v["symptom"], v["case"]], sort_keys=True, default=repr).encode()).hexdigest()[:12]
        if key in seen:
            continue
        seen.add(key)
        path = os.path.join(d, key + ".json")
        with open(path, "w") as f:
            json.dump(body, f, indent=1, default=repr)
        out.append((path, v))
    return out


def run_witnesses(check, tmp):
    if not findings.for_prop(check):
        return []
    outfile = os.path.join(tmp, "witness.json")
    py = envs.main_python()
    p = subprocess.run([py, "-m", "olverif.worker", "witness", check, outfile], env=envs.worker_env(),
                       capture_output=True, text=True, timeout=1800, cwd=tmp)
    if not os.path.exists(outfile):
        return [{"id": "?", "still_fails": None, "what": "witness runner died: " + (p.stdout + p.stderr)[-500:]}]
    return json.load(open(outfile))


def main(argv=None):
    ap = argparse.ArgumentParser(prog="check")
    ap.add_argument("check")
    ap.add_argument("--tier", default=os.environ.get("VERIF_TIER") or "quick", choices=["quick", "thorough"])
    ap.add_argument("--seed", type=int, default=int(os.environ.get("VERIF_SEED", "0") or 0))
    ap.add_argument("--replay")
    a = ap.parse_args(argv)
    check = a.check.upper()
    mod = _mod(check)
    engine = envs.ensure_deps()

    if a.replay:
        py = envs.main_python()
        rp = json.load(open(a.replay))
        if rp.get("host"):
            py = envs.interpreter(rp["host"]) or py
        p = subprocess.run([py, "-m", "olverif.worker", "replay", check, os.path.abspath(a.replay)],
                           env=envs.worker_env())
        return p.returncode

    t0 = time.time()
    tmp = tempfile.mkdtemp(prefix="olverif-")
    try:
        jobs = mod.jobs(a.tier, a.seed) if hasattr(mod, "jobs") else default_jobs(a.tier, a.seed)
        timeout = getattr(mod, "WORKER_TIMEOUT", {"quick": 1500, "thorough": 6 * 3600})[a.tier]
        results = run_jobs(check, a.tier, a.seed, jobs, tmp, timeout)
        m = merge(results)
        wit = run_witnesses(check, tmp)
    finally:
        shutil.rmtree(tmp, ignore_errors=True)

    # ---- verdict
    floor = getattr(mod, "FLOOR", {"quick": 1, "thorough": 1})[a.tier]
    replays = write_replays(check, m["violations"], a.tier, a.seed) if m["violations"] else []
    lines = []
    for w in wit:
        if w["still_fails"]:
            lines.append("KNOWN-FINDING: property=%s %s: %s" % (check, w["id"], w["what"]))
    for path, v in replays:
        lines.append("VIOLATION property=%s replay=%s" % (check, path))
        lines.append("  symptom=%s detail=%s" % (v["symptom"], json.dumps(v.get("detail"), default=repr)[:300]))
    stale = [w for w in wit if w["still_fails"] is False]
    verdict = "held"
    rc = 0
    if m["nviol"]:
        verdict, rc = "violated", 1
    elif m["evaluations"] < floor or m["crashes"]:
        verdict, rc = "inconclusive", 2
        lines.append("INCONCLUSIVE property=%s reason=%s" % (
            check, "crashes=%d evaluations=%d floor=%d %s" % (
                len(m["crashes"]), m["evaluations"], floor,
                (m["crashes"][0]["error"] or "")[-400:].replace("\n", " | ") if m["crashes"] else "")))
    if m["crashes"] and rc == 1:
        lines.append("note: %d worker(s) crashed: %s" % (len(m["crashes"]), (m["crashes"][0]["error"] or "")[-300:].replace("\n", " | ")))
    required = getattr(mod, "REQUIRED_MONITORS", [])
    for name in required:
        if rc == 0 and m["monitors"].get(name, 0) == 0:
            verdict, rc = "inconclusive", 2
            lines.append("INCONCLUSIVE property=%s reason=monitor %s never evaluated" % (check, name))

    # ---- evidence
    wall = round(time.time() - t0, 2)
    cov = {
        "evaluations": m["evaluations"],
        "distinct_nontrivial": len(m["nontrivial"]),
        "rule": getattr(mod, "RULE", ""),
        "samples": m["samples"][:6] or [{"note": "no sample recorded"}],
        "exhaustive": bool(getattr(mod, "EXHAUSTIVE", {}).get(a.tier, False)),
        "held": m["held"],
        "violations_total": m["nviol"],
        "known_finding_attributions": m["known"],
        "inconclusive": m["inconclusive"],
        "counters": dict(sorted(m["counters"].items())),
        "observed_sets": {k: {"n": len(v), "first": sorted(v)[:40]} for k, v in m["sets"].items()},
        "monitor_evaluations": m["monitors"],
        "contract_engine": sorted(m["engine"]) or [engine],
        "interpreters": sorted(m["pythons"]),
        "oneliner_imported_from": sorted(m["files"]),
        "witnesses": wit,
        "stale_findings": [w["id"] for w in stale],
        "verdict": verdict,
        "repo": envs.repo_state(),
        "jobs": len(jobs),
        "truncated_by_budget": m["truncated"],
    }
    ev = {
        "property_id": check, "tier": a.tier, "seed": a.seed,
        "level": getattr(mod, "LEVEL", "exploration"),
        "coverage": cov,
        "assumptions": getattr(mod, "ASSUMPTIONS", []),
        "wall_s": wall,
        "violations": m["nviol"],
    }
    os.makedirs(os.path.join(OUT, "evidence"), exist_ok=True)
    with open(os.path.join(OUT, "evidence", check + ".json"), "w") as f:
        json.dump(ev, f, indent=1, default=repr)

    for l in lines:
        print(l)
    print("%s %s tier=%s seed=%d: %s; evaluations=%d distinct_nontrivial=%d known=%s inconclusive=%s wall=%.1fs" % (
        check, envs.REPO, a.tier, a.seed, verdict, m["evaluations"], len(m["nontrivial"]),
        json.dumps(m["known"]), json.dumps(m["inconclusive"]), wall))
    if stale:
        print("note: witnesses of %s no longer fail (finding is stale; it suppresses nothing that passes)" % (
            ", ".join(w["id"] for w in stale)))
    return rc


if __name__ == "__main__":
    sys.exit(main())
