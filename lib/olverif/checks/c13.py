"""C13 - assignment, destructuring and augmented assignment store what Python stores.

M2+M3: after each statement the repr of every target and alias is printed; logging containers record
every __setitem__/__setattr__ call (number and arguments). Original and translation must print the same.
"""
import itertools

from .. import envs, observe, rt, findings

ID = "C13"
LEVEL = "exploration"
TECHNIQUE = "runtime differential monitor over finite matrices (pattern x source, slice bounds, operator x target x operand x placement) with store-logging containers"
RULE = ("exhaustive: (A) target patterns to depth 3 (1-3 elements per level, at most one star per level at every "
        "position, leaves = name / attribute / subscript / slice of a store-logging container) x source lengths "
        "min..min+3 x source kinds {list, tuple, str, range, generator, dict view, one-shot iterator}; (B) slice stores "
        "with every combination of lower/upper/step from {None, 0, 2, -2, 7} x {None, 0, 3, -1, 9} x {None, 1, 2, -1, -2} "
        "and right-hand sides of fitting and non-fitting length, extended (tuple) indices; (C) 13 augmented operators x "
        "{name, attribute, subscript, slice} targets x 16 operand kinds (int, float, str, list, tuple, set, dict, user "
        "class with in-place method returning self / a new object / NotImplemented, only binary, only reflected) x "
        "placement {global, local, class, nonlocal, global-declared}; x all 8 option combinations. Cells whose original raises are out of domain. Distinct by cell; non-trivial iff the statement "
        "stores to at least one target (all in-domain cells)."
        ' Plus parallel-assignment cells (swaps / rotations / Fibonacci steps of captured, global, class, attribute and subscript targets, right-hand calls that read a left-hand name, store order, the same name twice, nested patterns whose element is a dict / generator / iterator / set / map / string / custom iterable or that store into their own source) x {module, function, method}; the destructuring matrix also wraps the *nested* elements as iterators / generators / custom iterables; operand kinds include in-place results that are falsy.')
ASSUMPTIONS = ["values are compared by repr, aliases by repr and identity (`is`)"]
EXHAUSTIVE = {"quick": True, "thorough": True}
FLOOR = {"quick": 8000, "thorough": 30000}
MONITORS = False

OPS = ['+', '-', '*', '/', '//', '%', '**', '<<', '>>', '&', '|', '^', '@']
OPN = ['add', 'sub', 'mul', 'truediv', 'floordiv', 'mod', 'pow', 'lshift', 'rshift', 'and', 'or', 'xor', 'matmul']

PRE = '''
class Self:
    def __init__(s, v=0): s.v = v
    def __repr__(s): return 'Self(%r)' % (s.v,)
''' + ''.join("    def __i%s__(s, o):\n        s.v = ('%s', s.v, o); return s\n" % (n, n) for n in OPN) + '''
class New:
    def __init__(s, v=0): s.v = v
    def __repr__(s): return 'New(%r)' % (s.v,)
''' + ''.join("    def __i%s__(s, o): return New(('%s', s.v, o))\n" % (n, n) for n in OPN) + '''
class Bin:
    def __init__(s, v=0): s.v = v
    def __repr__(s): return 'Bin(%r)' % (s.v,)
''' + ''.join("    def __%s__(s, o): return Bin(('%s', s.v, o))\n" % (n, n) for n in OPN) + '''
class NI(Bin):
''' + ''.join("    def __i%s__(s, o): return NotImplemented\n" % n for n in OPN) + '''
class R:
    def __repr__(s): return 'R'
''' + ''.join("    def __r%s__(s, o): return ('r%s', o)\n" % (n, n) for n in OPN) + '''
class FalsySelf:
    # in-place methods work and return self, but the object is falsy
    def __init__(s, v=0): s.v = v
    def __repr__(s): return 'FalsySelf(%r)' % (s.v,)
    def __bool__(s): return False
''' + ''.join("    def __i%s__(s, o):\n        s.v = ('%s', s.v, o); return s\n" % (n, n) for n in OPN) + ''.join("    def __%s__(s, o): return ('binary-%s-must-not-run', s.v, o)\n" % (n, n) for n in OPN) + '''
class FalsyNew:
    def __init__(s, v=0): s.v = v
    def __repr__(s): return 'FalsyNew(%r)' % (s.v,)
    def __len__(s): return 0
''' + ''.join("    def __i%s__(s, o): return FalsyNew(('%s', s.v, o))\n" % (n, n) for n in OPN) + ''.join("    def __%s__(s, o): return ('binary-%s-must-not-run', s.v, o)\n" % (n, n) for n in OPN) + '''
class H: pass
class Log:
    def __init__(s, name, data=None):
        object.__setattr__(s, 'name', name); object.__setattr__(s, 'data', data if data is not None else {})
    def __setitem__(s, k, v):
        print('setitem', s.name, repr(k), repr(v)); s.data[repr(k)] = v
    def __getitem__(s, k):
        print('getitem', s.name, repr(k)); return s.data.get(repr(k), 0)
    def __setattr__(s, a, v):
        print('setattr', s.name, a, repr(v)); s.data['.' + a] = v
    def __getattr__(s, a):
        if a.startswith('__'): raise AttributeError(a)
        print('getattr', s.name, a); return s.data.get('.' + a, 0)
'''
OPERANDS = {'int': ('7', '2'), 'float': ('7.5', '2.0'), 'str': ("'ab'", "'c'"), 'str*int': ("'ab'", '2'),
            'list': ('[1,2]', '[3]'), 'list*int': ('[1]', '2'), 'tuple': ('(1,)', '(2,)'), 'set': ('{1,2}', '{2,3}'),
            'dict': ("{1:2}", "{3:4}"), 'Self': ('Self(1)', '5'), 'New': ('New(1)', '5'), 'Bin': ('Bin(1)', '5'),
            'NI': ('NI(1)', '5'), 'intR': ('1', 'R()'), 'bool': ('True', 'True'), 'str%': ("'%s-%s'", "(1,2)"),
            # in-place results that are falsy
            'list-emptied': ('[1, 2]', '0'), 'list-stays-empty': ('[]', '[]'), 'set-emptied': ('{1, 2}', '{1, 2}'),
            'dict-stays-empty': ('{}', '{}'), 'FalsySelf': ('FalsySelf(1)', '5'), 'FalsyNew': ('FalsyNew(1)', '5'),
            'bytearray-emptied': ("bytearray(b'ab')", '0')}
AUG_PLACES = ['global', 'local', 'class', 'nonlocal', 'globaldecl', 'method-attr']


def aug_prog(op, tk, ok, place):
    l, r = OPERANDS[ok]
    if tk == 'name':
        setup = 'x = %s\nal = x\n' % l
        stmt = 'x %s= %s\n' % (op, r)
        show = 'print(repr(x), repr(al), x is al)\n'
    elif tk == 'attr':
        setup = 'h = H()\nh.x = %s\nal = h.x\n' % l
        stmt = 'h.x %s= %s\n' % (op, r)
        show = 'print(repr(h.x), repr(al), h.x is al)\n'
    elif tk == 'sub':
        setup = 'c = [%s]\nal = c[0]\n' % l
        stmt = 'c[0] %s= %s\n' % (op, r)
        show = 'print(repr(c), repr(al), c[0] is al)\n'
    elif tk == 'slice':
        setup = 'c = [1,2,3,4]\nal = c\n'
        stmt = 'c[1:3] %s= %s\n' % (op, r)
        show = 'print(repr(c), repr(al))\n'
    elif tk == 'logsub':
        setup = "c = Log('c', {'0': %s})\n" % l
        stmt = 'c[0] %s= %s\n' % (op, r)
        show = 'print(sorted((k, repr(v)) for k, v in c.data.items()))\n'
    elif tk == 'logattr':
        setup = "c = Log('c', {'.a': %s})\n" % l
        stmt = 'c.a %s= %s\n' % (op, r)
        show = 'print(sorted((k, repr(v)) for k, v in c.data.items()))\n'
    body = setup + stmt + show
    ind = lambda b, n=1: ''.join('    ' * n + x + '\n' for x in b.splitlines())
    if place == 'global':
        return body
    if place == 'local':
        return 'def f():\n' + ind(body) + 'f()\n'
    if place == 'class':
        return 'class K:\n' + ind(body)
    if place == 'method-attr':
        if tk not in ('attr', 'sub'):
            return None
        return 'class K:\n    def m(self):\n' + ind(body, 2) + 'K().m()\n'
    if place == 'nonlocal':
        if tk != 'name':
            return None
        return 'def f():\n    x = %s\n    al = x\n    def g():\n        nonlocal x\n        x %s= %s\n    g()\n    print(repr(x), repr(al), x is al)\nf()\n' % (l, op, r)
    if place == 'globaldecl':
        if tk != 'name':
            return None
        return 'x = %s\nal = x\ndef g():\n    global x\n    x %s= %s\ng()\nprint(repr(x), repr(al), x is al)\n' % (l, op, r)


def aug_cells():
    for op, tk, ok, place in itertools.product(OPS, ['name', 'attr', 'sub', 'slice', 'logsub', 'logattr'], OPERANDS, AUG_PLACES):
        src = aug_prog(op, tk, ok, place)
        if src is not None:
            yield ("aug", OPN[OPS.index(op)], tk, ok, place), src
            # the same cell with the right operand spelled as a variable / as a call instead of a literal
            # (lowerings that special-case literal operands take another path)
            l, r = OPERANDS[ok]
            if place in ('global', 'local', 'class'):
                stmt = " %s= %s\n" % (op, r)
                if stmt in src:
                    pre = "def rhs_():\n    return %s\nrv_ = %s\n" % (r, r)
                    yield ("aug-var-operand", OPN[OPS.index(op)], tk, ok, place), pre + src.replace(stmt, " %s= rv_\n" % op, 1)
                    yield ("aug-call-operand", OPN[OPS.index(op)], tk, ok, place), pre + src.replace(stmt, " %s= rhs_()\n" % op, 1)


# ---------------------------------------------------------------- destructuring patterns

def patterns(depth, budget=6):
    """Nested patterns: ('n',) leaf | ('t', [elements], star_index|None). Every element is a pattern."""
    yield ("n",)
    if depth == 0:
        return
    for width in (1, 2, 3):
        for star in [None] + list(range(width)):
            subs = [[("n",)] if depth == 1 else [("n",), ("t", [("n",), ("n",)], None), ("t", [("n",), ("n",)], 0),
                                                   ("t", [("n",)], None)] + ([("t", [("n",), ("t", [("n",), ("n",)], 1)], None)] if depth >= 3 else [])
                    for _ in range(width)]
            for combo in itertools.product(*subs):
                # keep the product finite and meaningful: at most 2 compound elements
                if sum(1 for c in combo if c[0] == "t") > 2:
                    continue
                yield ("t", list(combo), star)


class _Names:
    def __init__(self, leafkinds):
        self.n = 0
        self.kinds = leafkinds
        self.names = []
        self.shows = []

    def leaf(self):
        self.n += 1
        k = self.kinds[(self.n - 1) % len(self.kinds)]
        if k == "name":
            nm = "v%d" % self.n
            self.shows.append(nm)
            return nm
        if k == "attr":
            return "lg.a%d" % self.n
        if k == "sub":
            return "lg[%d]" % self.n
        if k == "slice":
            return "lg[%d:%d]" % (self.n, self.n + 2)


def render_pattern(p, names, top=True):
    if p[0] == "n":
        return names.leaf()
    elts = []
    for i, e in enumerate(p[1]):
        s = render_pattern(e, names, False)
        if p[2] == i:
            s = "*" + s
        elts.append(s)
    body = ", ".join(elts) + ("," if len(elts) == 1 else "")
    return body if top else ("(" + body + ")" if names.n % 2 else "[" + body.rstrip(",") + "]")


class _Val:
    def __init__(self):
        self.c = 0

    def leaf(self):
        self.c += 1
        return self.c


def value_for(p, extra, vals, top=True):
    """A nested Python value (lists/tuples of ints) fitting pattern p; the star absorbs `extra` items."""
    if p[0] == "n":
        return vals.leaf()
    out = []
    for i, e in enumerate(p[1]):
        if p[2] == i:
            if e[0] == "n":
                out.extend(vals.leaf() for _ in range(extra))
            else:
                out.extend(value_for(e, 1, vals, False))
        else:
            out.append(value_for(e, 1, vals, False))
    return tuple(out)


SOURCE_KINDS = ["list", "tuple", "str", "range", "generator", "dictview", "iterator", "custom-iterable",
                # the *nested* elements are one-shot / non-indexable iterables (a nested pattern must iterate its own element)
                "nested-iterators", "nested-generators", "nested-custom-iterables"]


def _nested(val, wrap, top=True):
    if isinstance(val, int):
        return repr(val)
    inner = "[" + ", ".join(_nested(x, wrap, False) for x in val) + "]"
    return inner if top else wrap % inner


def wrap_source(val, kind):
    flat = all(isinstance(x, int) for x in val)
    lit = repr(list(val))
    if kind == "list":
        return lit
    if kind == "tuple":
        return repr(tuple(val))
    if kind == "str":
        if not flat:
            return None
        return repr("".join(chr(96 + (x % 26) + 1) for x in val))
    if kind == "range":
        if not flat or list(val) != list(range(val[0], val[0] + len(val))) if val else False:
            return None
        return "range(%d, %d)" % (val[0], val[0] + len(val)) if val else "range(0)"
    if kind == "generator":
        return "(e for e in %s)" % lit
    if kind == "dictview":
        return "{k: 0 for k in %s}.keys()" % repr(list(val))
    if kind == "iterator":
        return "iter(%s)" % lit
    if kind == "custom-iterable":
        return "Seq(%s)" % lit
    if kind.startswith("nested-"):
        if flat:
            return None
        return _nested(val, {"nested-iterators": "iter(%s)", "nested-generators": "(e_ for e_ in %s)",
                             "nested-custom-iterables": "Seq(%s)"}[kind])


SEQ = '''
class Seq:
    def __init__(s, items): s.items = items
    def __repr__(s): return 'Seq(%r)' % (s.items,)
    def __iter__(s):
        print('iter-called')
        return iter(s.items)
'''


def destructuring_cells():
    seen = set()
    for p in patterns(3):
        if p[0] == "n":
            continue
        for leafkinds in (["name"], ["name", "attr", "sub"], ["sub", "name", "slice"]):
            for extra in (0, 1, 2, 3):
                if p[2] is None and extra != 1 and not _has_star(p):
                    if extra != 0:
                        continue
                names = _Names(leafkinds)
                tgt = render_pattern(p, names)
                vals = _Val()
                val = value_for(p, extra, vals)
                for kind in SOURCE_KINDS:
                    src_expr = wrap_source(val, kind)
                    if src_expr is None:
                        continue
                    key = (tgt, src_expr)
                    if key in seen:
                        continue
                    seen.add(key)
                    body = "lg = Log('lg')\n%s = %s\nprint(%s)\n" % (tgt, src_expr, ", ".join("repr(%s)" % n for n in names.shows) or "'-'")
                    yield ("destructure", tgt, kind, extra, "+".join(leafkinds)), body


def _has_star(p):
    if p[0] == "n":
        return False
    return p[2] is not None or any(_has_star(e) for e in p[1])


# ---------------------------------------------------------------- slice stores

def slice_cells():
    for lo, up, st in itertools.product([None, 0, 2, -2, 7], [None, 0, 3, -1, 9], [None, 1, 2, -1, -2]):
        sl = "%s:%s%s" % ("" if lo is None else lo, "" if up is None else up, "" if st is None else ":%d" % st)
        base = list(range(6))
        n = len(base[slice(lo, up, st)])
        for rlen in sorted({n, 0, 1, n + 2}):
            rhs = "[%s]" % ", ".join(str(10 + i) for i in range(rlen))
            for kind in ("list", "generator", "str"):
                if kind == "generator":
                    rhs2 = "(q for q in %s)" % rhs
                elif kind == "str":
                    rhs2 = repr("abcdefgh"[:rlen])
                else:
                    rhs2 = rhs
                body = "l = list(range(6))\nal = l\nl[%s] = %s\nprint(l, al is l)\n" % (sl, rhs2)
                yield ("slice-store", sl, rlen, kind), body
        body = "lg = Log('lg')\nlg[%s] = 5\nlg[%s, 1] = 6\nlg[..., %s] = 7\n" % (sl, sl, sl)
        yield ("slice-store-logged", sl), body
        body = "def f():\n    lg = Log('lg')\n    i = 1\n    def g():\n        return i\n    lg[i:%s] = g()\n    lg[%s] = i\n    lg[i, %s] += g()\nf()\n" % ("" if up is None else up, sl, sl)
        yield ("slice-store-captured-index", sl), body


def chained_cells():
    """Chained assignment mixing destructuring patterns and plain targets in every order: each target gets what Python
    gives it - the plain targets the assigned *object itself* (identity), the patterns its elements."""
    pats = ["a, b", "[a, b]", "a, *b", "*a, b", "(a, b), c", "a, (b, *c)", "lg.p, lg[0]", "a, lg[1:2]"]
    srcs = {"list": "[1, 2]", "tuple": "(1, 2)", "str": "'xy'", "iterator": "iter([1, 2])", "generator": "(q for q in (1, 2))",
            "dictview": "{1: 0, 2: 0}.keys()", "custom-iterable": "Seq([1, 2])", "nested-list": "[[1, 2], [3, 4]]", "nested-tuple": "((1, 2), (3, 4))"}
    forms = {"pattern-first": "{P} = z = {S}", "pattern-middle": "z = {P} = y = {S}", "pattern-last": "z = y = {P} = {S}",
             "two-patterns": "{P} = z = [c0, *c1] = {S}", "pattern-attr-pattern": "{P} = lg.whole = {P} = {S}"}
    for (pi, pat), (sk, src), (fk, form) in itertools.product(enumerate(pats), srcs.items(), forms.items()):
        nested = "(" in pat
        if nested != sk.startswith("nested"):
            continue
        stmt = form.replace("{P}", pat).replace("{S}", src)
        names = sorted(set(n for n in ("a", "b", "c") if n in pat.replace("lg", "")))
        show = ["repr(%s)" % n for n in names]
        if " z " in " " + stmt:
            show += ["type(z).__name__", "repr(list(z)) if type(z).__name__ in ('list_iterator', 'generator') else repr(z)"]
        if " y " in " " + stmt:
            show += ["y is z"]
        if "c0" in stmt:
            show += ["repr(c0)", "repr(c1)"]
        body = "lg = Log('lg')\n%s\nprint(%s)\n" % (stmt, ", ".join(show))
        yield ("chained", pat, sk, fk), body
        yield ("chained-in-function", pat, sk, fk), "def f():\n" + "".join("    " + l + "\n" for l in body.splitlines()) + "f()\n"


# ---------------------------------------------------------------- parallel assignment: all values first, then the stores

PARALLEL = {
    "swap-module": "a, b = 1, 2\na, b = b, a\nprint(a, b)\n",
    "swap-captured-nonlocal": ("def f():\n    lo, hi = 1, 2\n    def g():\n        nonlocal lo, hi\n        lo, hi = hi, lo\n        return lo, hi\n"
                               "    r = g()\n    return r, lo, hi\nprint(f())\n"),
    "swap-captured-read-only-inner": ("def f():\n    lo, hi = 1, 2\n    def peek():\n        return lo, hi\n    lo, hi = hi, lo\n    return peek(), lo, hi\nprint(f())\n"),
    "fib-nonlocal": ("def mk():\n    cur, nxt = 0, 1\n    def step():\n        nonlocal cur, nxt\n        cur, nxt = nxt, cur + nxt\n        return cur\n    return step\n"
                     "s = mk()\nprint([s() for _ in range(6)])\n"),
    "fib-global": "cur, nxt = 0, 1\ndef step():\n    global cur, nxt\n    cur, nxt = nxt, cur + nxt\n    return cur\nprint([step() for _ in range(6)], cur, nxt)\n",
    "fib-class-body": "class K:\n    cur, nxt = 0, 1\n    cur, nxt = nxt, cur + nxt\n    cur, nxt = nxt, cur + nxt\n    cur, nxt = nxt, cur + nxt\nprint(K.cur, K.nxt)\n",
    "indirect-read-global": "level = 1\ndef describe():\n    return 'L%d' % level\nlevel, label = 10, describe()\nprint(level, label)\n",
    "indirect-read-closure": ("def f():\n    level = 1\n    def describe():\n        return 'L%d' % level\n    level, label = 10, describe()\n    label2, level = describe(), 20\n"
                              "    return level, label, label2\nprint(f())\n"),
    "indirect-read-lambda-and-comprehension": "n = 1\npeek = lambda: n\nn, seen, lst = 5, peek(), [n for _ in range(2)]\nprint(n, seen, lst)\n",
    "indirect-read-attribute": "class O:\n    pass\no = O()\no.a, o.b = 1, 2\no.a, o.b = o.b, o.a\no.a, o.b = o.b + 10, (lambda: o.a)()\nprint(o.a, o.b)\n",
    "indirect-read-subscript": "d = {'x': 1, 'y': 2}\nd['x'], d['y'] = d['y'], d['x']\nl = [0, 1, 2]\nl[0], l[1], l[2] = l[2], l[0], l[1]\nprint(d, l)\n",
    "three-way-rotation-local": "def f():\n    a, b, c = 1, 2, 3\n    a, b, c = c, a, b\n    [a, b], c = [b, c], a\n    return a, b, c\nprint(f())\n",
    "store-order-left-to-right": "l = [0, 1, 2]\ni = 0\ni, l[i] = 2, 'x'\nprint(i, l)\nj, (l[j], j) = 1, ('y', 0)\nprint(j, l)\n",
    "same-name-twice": "x, (y, x) = 1, (2, 3)\nprint(x, y)\n(x, y), x = (4, 5), 6\nprint(x, y)\n",
    "nested-pattern-stores-into-its-own-source": "row = [1, 2, 3]\ni, (row[2], row[1], row[0]) = 7, row\nprint(i, row)\nrow2 = [1, 2, 3]\n(row2[1], row2[0], row2[2]), k = row2, 0\nprint(row2, k)\n",
    "nested-element-is-a-dict": "tag, (first, second) = 'cfg', {1: 'one', 0: 'zero'}\nprint(tag, first, second)\n",
    "nested-element-is-a-generator": "a, (b, c) = 1, (q * 2 for q in [2, 3])\nprint(a, b, c)\n(d, *e), f = (q for q in [1, 2, 3]), 9\nprint(d, e, f)\n",
    "nested-element-is-an-iterator": "a, (b, *c) = 1, iter([2, 3, 4])\nprint(a, b, c)\nit = iter([5, 6])\n(p, q), r = it, 0\nprint(p, q, r, list(it))\n",
    "nested-element-is-a-set-or-map-object": "a, (b,) = 1, {7}\nprint(a, b)\nm, (n, o) = 0, map(str, [1, 2])\nprint(m, n, o)\nu, (v, w) = 0, {'k1': 1, 'k2': 2}.items()\nprint(u, v, w)\n",
    "nested-element-is-a-string": "a, (b, c), [d, *e] = 1, 'xy', 'pqr'\nprint(a, b, c, d, e)\n",
    "nested-element-custom-iterable": "a, (b, c) = 1, Seq([2, 3])\nprint(a, b, c)\nfor g, (h, i) in [(1, Seq([2, 3])), (4, (q for q in [5, 6]))]:\n    print(g, h, i)\n",
    "for-target-nested-non-indexable": "for k, (v, w) in [(1, {2: 'a', 3: 'b'}), (4, iter([5, 6]))]:\n    print(k, v, w)\n",
    "three-levels-non-indexable": "a, (b, (c, d)) = 1, iter([2, iter([3, 4])])\nprint(a, b, c, d)\n",
    "wrong-length-nested": "try_ = 0\na, (b, c) = 1, [2, 3]\nprint(a, b, c)\n",
}


def parallel_cells():
    ind = lambda b, n=1: "".join("    " * n + x + "\n" for x in b.splitlines())
    for name, src in PARALLEL.items():
        yield ("parallel", name, "module"), src
        yield ("parallel", name, "function"), "def main_():\n" + ind(src) + "main_()\n"
        if "global " not in src:
            yield ("parallel", name, "method"), "class M_:\n    def run(self):\n" + ind(src, 2) + "M_().run()\n"


def all_cells():
    yield from parallel_cells()
    yield from chained_cells()
    yield from aug_cells()
    yield from destructuring_cells()
    yield from slice_cells()


def cell_id(cell):
    return "/".join(str(x) for x in cell)


_PRE_CODE = None


def mkenv():
    """Harness classes (operands, store-logging containers) are *injected*, not part of the converted source."""
    global _PRE_CODE
    if _PRE_CODE is None:
        _PRE_CODE = compile(PRE + SEQ, "<c13-harness>", "exec")
    ns = {"__name__": "__main__"}
    exec(_PRE_CODE, ns)
    return ns, []


def run_case(rec, cell, src, cfg):
    o, to = rt.guarded(lambda: observe.differential(src, cfg, mkenv, globals_cmp=False), 20)
    if to:
        rec.inconc("case-timeout")
        return
    if o.ood:
        rec.count("out-of-domain:" + cell[0])
        rec.inconc("original-raises")
        return
    if o.ok:
        rec.ok((cell, cfg))
        rec.count("held:" + cell[0])
        if len(rec.samples) < 2 and cell[0] == "destructure" and cell[3] == 2 and cell[2] == "iterator":
            rec.sample({"cell": list(cell), "options": cfg, "statement": src})
        return
    for kf in findings.for_prop(ID):
        for pat in kf.get("cells", []):
            if _cell_matches(cell, pat) and any(o.status.startswith(s) for s in kf.get("symptoms", [])):
                rec.known_finding(kf["id"])
                rec.note("known cells", cell_id(cell))
                return
    rec.violation(o.status, {"cell": list(cell), "src": src, "cfg": list(cfg)}, o.detail)


def _cell_matches(cell, pat):
    """pat: list like ['aug', '*', 'name', 'NI', '*'] ('*' = any)."""
    if len(pat) != len(cell):
        return False
    if pat[0] == "aug" and cell[0] in ("aug-var-operand", "aug-call-operand"):
        cell = ("aug",) + tuple(cell[1:])
    return all(p == "*" or str(p) == str(c) for p, c in zip(pat, cell))


def run_shard(rec):
    idx = 0
    for cell, src in all_cells():
        idx += 1
        if idx % rec.nshards != rec.shard:
            continue
        for cfg in envs.CFGS:
            run_case(rec, cell, src, cfg)


def replay(case, rec):
    run_case(rec, tuple(case["cell"]), case["src"], tuple(case["cfg"]))


def run_witness(kf):
    w = kf["witness"]
    for cfg in envs.CFGS[:2]:
        o = observe.differential(w["source"], cfg, mkenv, globals_cmp=False)
        if not o.ok and not o.ood:
            return True, "%s [witness -> %s]" % (kf["mechanism"], o.status)
    return False, "witness passes"
