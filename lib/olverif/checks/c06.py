"""C06 - every name resolves to the same variable after lowering of scopes.

M3+M2: every scope of an enumerated scope tree logs (site, value of the tracked name x) after its own
binding action and after each inner scope ran; the logs of exec(source) and eval(translation) and the
final module namespace must coincide.
"""
import random

from .. import envs, observe, rt, findings
from ..gen import scopes as sc

ID = "C06"
LEVEL = "exploration"
TECHNIQUE = "runtime trace monitor over enumerated scope trees: logged reads of the tracked name at every site + final namespace, exec(source) vs eval(translation)"
RULE = ("scope trees with node kinds {function, class, lambda, comprehension}, the tracked name x playing one role per "
        "scope from the full catalogue (none, read, assign, augassign, walrus, parameter, parameter with default reading "
        "the outer x, loop target, comprehension target, def/class/import binding, global/nonlocal + assign/read/augassign) "
        "plus compound roles (parameter then reassigned/augmented/walrus-rebound, bound before and rebound after the inner "
        "scopes, inner scope defined before the binding and called after it, loop target rebound in the body, "
        "destructuring, binding in both arms of an if): exhaustive for depth <= 2 incl. two children, exhaustive depth-3 "
        "chains (sampled in quick), exhaustive depth-4 chains over a reduced role set, seeded sample of depth-3/4 trees with "
        "two children; x 9-11 module-level roles; only programs CPython runs without exception are judged; hosts 3.12 + "
        "3.11 (symtable layout changes at 3.12), thorough 3.10-3.13. Distinct by (tree, module role, options); non-trivial "
        "iff the original logged at least two reads of x."
        ' Function roles also cover every parameter kind of a def (positional-only, *args, **kwargs, keyword-only with default) captured / rebound by the scopes below, and assignment expressions in `while` tests and `for` iterables in function, class and module scopes. Cases hit by one of the two measured CPython >= 3.12 comprehension-inlining defects are inconclusive (input-side predicate, the second one also confirmed on the real 3.10 and 3.11 binaries).')
ASSUMPTIONS = ["values are logged by repr (callables/classes/modules by type name)",
               "programs CPython rejects or that raise are out of domain and only counted"]
EXHAUSTIVE = {"quick": False, "thorough": False}
FLOOR = {"quick": 20000, "thorough": 200000}
MONITORS = False
SIZES = {"quick": dict(d3_frac=0.07, d4_frac=0.15, rand=6000, other_frac=0.12),
         "thorough": dict(d3_frac=1.0, d4_frac=1.0, rand=150000, other_frac=1.0)}


def jobs(tier, seed):
    from ..driver import NCPU
    out = [{"host": "3.12", "shard": i, "nshards": NCPU, "args": {}} for i in range(NCPU)]
    for h in (["3.11"] if tier == "quick" else ["3.10", "3.11", "3.13"]):
        n = 8 if tier == "quick" else NCPU
        out += [{"host": h, "shard": i, "nshards": n, "args": {"other_host": True}} for i in range(n)]
    return out


def judge(rec, mrole, t, cfg, src=None):
    src = src or sc.program(mrole, t)
    if not rec.begin_case(src):
        return
    o, to = rt.guarded(lambda: observe.differential(src, cfg, sc.mkenv, globals_cmp=True, keep=True), 20)
    if to:
        rec.inconc("case-timeout")
        return
    if o.ood:
        rec.inconc(o.status.split(":")[1])
        return
    case = {"mrole": mrole, "tree": sc.path(t) if t else None, "src": src, "cfg": list(cfg)}
    trig = findings.triggered(ID, src=src, cfg=cfg)
    if o.ok:
        reads = sum(1 for e in o.log1 if e[-1] not in ("0", "None"))
        rec.ok((src, cfg), nontrivial=reads >= 2)
        rec.count("log-events-compared", len(o.log1))
        for k in trig:
            rec.count("tainted-but-held:" + k["id"])
        if len(rec.samples) < 2 and t and len(t[2]) == 2 and reads > 4:
            rec.sample({"module_role": mrole, "tree": sc.path(t), "options": cfg, "source": src, "log": [" ".join(e) for e in o.log1[:16]]})
        return
    kid = findings.attribute(trig, o.status)
    if kid:
        rec.known_finding(kid)
        return
    import ast
    import sys
    if sys.version_info >= (3, 12) and findings.cpython_inlined_comprehension_cell_bug(ast.parse(src)):
        # the reference model itself misbehaves on this shape (see findings.py); not decided
        rec.inconc("reference-model-defect:cpython>=3.12 inlined-comprehension cell leak")
        return
    why = observe.interpreter_defect_312(o, src, observe.SCOPES_LOG_PRELUDE)
    if why:
        rec.inconc(why)
        return
    rec.violation(o.status, case, o.detail)


def enumerate_cases(rec, size):
    """Yield (mrole, tree, take) deterministically; `take` decides sampling."""
    rng = random.Random(rec.seed * 2654435761 % (2 ** 31) + 1)
    frac_scale = size["other_frac"] if rec.args.get("other_host") else 1.0
    # depth 1 and 2 incl. two children: exhaustive
    for mrole in sc.ROLES["M"]:
        for t in sc.trees(2, "M", width=2):
            yield mrole, t, rng.random() < frac_scale
    # depth-3 chains
    for mrole in sc.ROLES["M"]:
        for t in sc.chains(3, "M", sc.ROLES):
            yield mrole, t, rng.random() < size["d3_frac"] * frac_scale
    # depth-4 chains over the reduced role set
    for mrole in sc.REDUCED["M"]:
        for t in sc.chains(4, "M", sc.REDUCED):
            yield mrole, t, rng.random() < size["d4_frac"] * frac_scale


def run_shard(rec):
    size = SIZES[rec.tier]
    idx = 0
    for mrole, t, take in enumerate_cases(rec, size):
        if not take:
            continue
        idx += 1
        if idx % rec.nshards != rec.shard:
            continue
        if rec.out_of_budget():
            rec.truncated += 1
            continue
        k = (idx // rec.nshards + rec.seed) % 8
        cfgs = envs.CFGS if rec.tier == "thorough" and idx % 4 == 0 else [envs.CFGS[k]]
        for cfg in cfgs:
            judge(rec, mrole, t, cfg)
        rec.count("enumerated")
    # random deeper / wider trees
    n = size["rand"] // (8 if rec.args.get("other_host") else 1)
    rng = random.Random(rec.seed * 7907 + rec.shard * 13 + 5)
    for i in range(n // rec.nshards):
        if rec.out_of_budget():
            rec.truncated += 1
            continue
        depth = rng.choice([3, 3, 4, 4, 5])
        t = sc.random_tree(rng, depth, "M", sc.ROLES if depth < 5 else sc.REDUCED)
        mrole = rng.choice(sc.ROLES["M"])
        judge(rec, mrole, t, envs.CFGS[rng.randrange(8)])
        rec.count("random-trees")


def replay(case, rec):
    judge(rec, case.get("mrole"), None, tuple(case["cfg"]), src=case["src"])


def run_witness(kf):
    w = kf["witness"]
    cfgs = envs.CFGS if w.get("cfg", "*") == "*" else [tuple(w["cfg"])]
    for cfg in cfgs:
        o = observe.differential(w["source"], cfg)
        if not o.ok and not o.ood:
            return True, "%s [witness -> %s]" % (kf["mechanism"], o.status)
    return False, "witness passes"
