"""C02 - accepted input always yields one well-formed single-line expression.

M1: icontract post-condition on the real convert_code_string: whatever it *returns* contains no line
break and compiles in eval mode. Judged on every conversion of generated programs (inside and outside
the supported fragment) and of real-world modules (standard library with unsupported statements stripped).
"""
import ast
import random
import sys

from .. import envs, rt, findings, contracts
from ..gen import progs, corpus, inject

ID = "C02"
LEVEL = "exploration"
TECHNIQUE = "runtime contract (icontract post-condition on the real convert_code_string) over generated programs and the stdlib corpus"
RULE = ("post-condition judged on every conversion of: (a) seeded generated supported-fragment programs x 8 option "
        "combinations, (b) the same programs with unsupported constructs / illegal placements injected (they must "
        "raise or return something well-formed), (c) every *.py of the host's standard library incl. test/ with "
        "unsupported statements stripped by an AST transformer (sampled files x 2 options in quick; all files x 8 "
        "options and hosts 3.10-3.13 in thorough), (d) targeted shapes: multi-line string / f-string literals, "
        "dotted imports, loop targets rebound in the body, walrus in while/for headers, slices in tuple indices. "
        "Distinct by (source, options); non-trivial iff the conversion returned (so the post-condition decided).")
ASSUMPTIONS = ["compile(text, '<o>', 'eval') of the host is the reference for 'is one expression'",
               "RecursionError/MemoryError from compile are inconclusive here (that is C17)"]
EXHAUSTIVE = {"quick": False, "thorough": False}
FLOOR = {"quick": 5000, "thorough": 100000}
REQUIRED_MONITORS = ["C02.single-line-expression"]
SIZES = {"quick": dict(gen=1500, corpus=160, corpus_cfgs=2, inj_hosts=4, other=250),
         "thorough": dict(gen=30000, corpus=None, corpus_cfgs=8, inj_hosts=60, other=6000)}

TARGETED = {
    "multiline-string": 's = """a\nb\r\nc"""\nprint(s)\n',
    "multiline-fstring": 'x = 1\ns = f"""a\n{x}\nb"""\nprint(s)\n',
    "multiline-bytes": 's = b"""a\nb"""\nprint(s)\n',
    "dotted-import": "import os.path\nimport xml.dom.minidom\nprint(os.path.sep)\n",
    "dotted-import-several": "import os.path, xml.dom.minidom, email.mime.text as t\nprint(os.path.sep, xml.dom.minidom.__name__, t.__name__)\n",
    "dotted-import-in-def": "def f():\n    import os.path\n    return os.path.sep\nprint(f())\n",
    "loop-target-rebound": "for i in range(3):\n    i = i + 1\n    print(i)\n",
    "loop-target-attribute": "class O: pass\no = O()\nfor o.x in range(2):\n    print(o.x)\n",
    "loop-target-subscript": "l = [0]\nfor l[0] in range(2):\n    print(l)\n",
    "walrus-in-while": "it = iter([1, 0])\nwhile (x := next(it)):\n    print(x)\n",
    "walrus-in-for-iter": "for i in (y := [1, 2]):\n    print(i, y)\n",
    "walrus-in-if": "if (z := 3) > 2:\n    print(z)\n",
    "walrus-in-comprehension": "print([w for q in range(3) if (w := q * 2)])\n",
    "slice-in-tuple-index": "class G:\n    def __setitem__(s, k, v): print(k, v)\n    def __getitem__(s, k): return 1\ng = G()\ng[1:2, 3] = 4\ng[::2, ..., 1:] += 1\n",
    "lambda-newline-default": "f = lambda a='x\\ny': a\nprint(f())\n",
    "docstrings": '"""module\ndoc"""\ndef f():\n    """function\n    doc"""\n    return 1\nclass K:\n    """class\n    doc"""\nprint(f())\n',
    "semicolons-and-continuations": "a = 1; b = 2\nc = (a +\n     b)\nd = a + \\\n    b\nprint(a, b, c, d)\n",
    "carriage-return-in-string": "s = 'a\\rb'\nprint(repr(s))\n",
    "unicode-line-separators": "s = 'a\\u2028b\\u2029c\\x85d\\x0ce'\nprint(repr(s))\n",
    "annotated-only": "x: int\ny: 'str' = 'a'\nprint(y)\n",
    "empty-module": "",
    "only-pass": "pass\n",
    "only-comment": "# nothing\n",
    "global-at-module": "global q\nq = 1\nprint(q)\n",
    "nested-fstring-quotes": "d = {'k': 1}\nprint(f\"{d['k']}\")\nprint(f'{d[\"k\"]!r:>{3}}')\n",
    "star-targets": "a, *b = 1, 2, 3\n[c, *d], e = [1, 2], 3\nprint(a, b, c, d, e)\n",
    "chained-compare-walrus": "print(1 < (t := 2) < 3, t)\n",
    "conditional-import": "if True:\n    import json as j\nprint(j.dumps(1))\n",
    "relative-import-syntax": "def f():\n    from . import x\n",
    "class-keywords": "class M(type): pass\nclass A(metaclass=M): pass\nprint(type(A).__name__)\n",
    "decorated-class-and-def": "def d(x): return x\n@d\nclass A:\n    @staticmethod\n    @d\n    def f(): return 1\nprint(A.f())\n",
    "augassign-all-targets": "class O: pass\no = O(); o.a = 1; l = [1, 2, 3]; x = 1\nx += 1; o.a -= 1; l[0] *= 2; l[1:] += [4]\nprint(x, o.a, l)\n",
    "string-prefixes": "print(r'\\n', b'\\x00', u'u', rb'\\d', f'{1}' 'joined' \"lit\")\n",
    "big-numbers": "print(10**30, 1e400, -1e400, 1j, 0x_ff, 1_000)\n",
    "ellipsis-and-consts": "print(..., None, True, False, NotImplemented)\n",
    "tabs-and-formfeed": "if 1:\n\tx = 1\n\tprint(x)\n",
}


def jobs(tier, seed):
    from ..driver import NCPU
    out = [{"host": "3.12", "shard": i, "nshards": NCPU, "args": {}} for i in range(NCPU)]
    for h in (["3.11"] if tier == "quick" else ["3.10", "3.11", "3.13"]):
        n = 4 if tier == "quick" else 8
        out += [{"host": h, "shard": i, "nshards": n, "args": {"other_host": True}} for i in range(n)]
    return out


def judge(rec, name, src, cfg, kind):
    ol = rt.load_oneliner()
    contracts.MON.drain()
    before = contracts.MON.evals.get("C02.single-line-expression", 0)

    def call():
        try:
            return ol.convert_code_string(src, "<s>", rt.mkcfg(cfg)), None
        except rt.CaseTimeout:
            raise
        except BaseException as e:
            return None, type(e).__name__
    r, to = rt.guarded(call, 120)
    if to:
        rec.inconc("case-timeout")
        return
    out, err = r
    ev = contracts.MON.drain("C02")
    reached = contracts.MON.evals.get("C02.single-line-expression", 0) > before
    if err:
        rec.count("rejected:" + err)
        rec.count(kind + "-rejected")
        return
    if not reached:
        rec.inconc("contract-not-reached")
        return
    if ev:
        trig = findings.triggered(ID, src=src, cfg=cfg)
        kid = findings.attribute(trig, ev[0]["detail"])
        if kid:
            rec.known_finding(kid)
            return
        rec.violation(ev[0]["detail"], {"name": name, "src": src if len(src) < 20000 else None, "file": name, "cfg": list(cfg), "kind": kind},
                      {"msg": ev[0]["input"].get("msg"), "text": (out or "")[:300]})
        return
    rec.ok((name, rt.h8(src), cfg))
    rec.count(kind + "-returned")
    rec.count("output-chars", len(out))


def run_shard(rec):
    size = SIZES[rec.tier]
    other = rec.args.get("other_host")
    idx = 0

    def mine():
        nonlocal idx
        idx += 1
        return idx % rec.nshards == rec.shard

    if rec.shard == 0 and not other:
        rt.run_suite_with_contracts(rec, ("C02",))
    # (d) targeted shapes
    for name, src in TARGETED.items():
        if not mine():
            continue
        for cfg in envs.CFGS:
            judge(rec, "targeted:" + name, src, cfg, "targeted")
    # (a) generated programs
    n = size["gen"] if not other else size["other"]
    for i in range(n):
        if not mine():
            continue
        seed = rec.seed * 1000003 + 500000 + i
        src, feats = progs.generate(seed)
        for cfg in (envs.CFGS if not other else envs.CFGS[::3]):
            judge(rec, "gen:%d" % seed, src, cfg, "generated")
        if len(rec.samples) < 1 and i % 301 == 0:
            rec.sample({"name": "gen:%d" % seed, "source": src[:800]})
    # (b) injected programs: must raise or return something well-formed
    rng = random.Random(rec.seed * 17 + 3)
    nh = size["inj_hosts"] if not other else 1
    for h in range(nh):
        g = progs.Gen(rec.seed * 9001 + h)
        g.budget = 10
        hsrc = g.program()
        try:
            compile(hsrc, "<h>", "exec")
        except SyntaxError:
            continue
        for gen in (inject.variants_stmt(hsrc, max_positions=12, rng=rng), inject.variants_expr(hsrc, max_positions=20, rng=rng),
                    inject.variants_illegal(hsrc, max_positions=12, rng=rng)):
            for construct, place, src in gen:
                if not mine():
                    continue
                judge(rec, "inj:%s@%s" % (construct, place), src, envs.CFGS[idx % 8], "injected")
    # (c) real-world modules
    files = corpus.files()
    random.Random(rec.seed + 77).shuffle(files)
    if size["corpus"]:
        files = files[:size["corpus"] // (4 if other else 1)]
    for f in files:
        if not mine():
            continue
        if rec.out_of_budget():
            rec.truncated += 1
            continue
        src = corpus.stripped_source(f)
        if src is None:
            rec.count("corpus-file-unusable")
            continue
        rec.count("corpus-files")
        k = idx % 8
        cfgs = envs.CFGS if size["corpus_cfgs"] >= 8 else [envs.CFGS[k], envs.CFGS[(k + 5) % 8]]
        for cfg in cfgs:
            judge(rec, f, src, cfg, "corpus")
        if len(rec.samples) < 2:
            rec.sample({"corpus_file": f, "stripped_source_chars": len(src)})


def replay(case, rec):
    if case.get("kind") == "suite":
        return rt.run_suite_with_contracts(rec, ("C02",))
    src = case.get("src")
    if src is None:
        src = corpus.stripped_source(case["file"])
    judge(rec, case.get("name", "replay"), src, tuple(case["cfg"]), case.get("kind", "replay"))


def run_witness(kf):
    w = kf["witness"]
    host = w.get("host")
    if host and "%d.%d" % sys.version_info[:2] != host:
        return _other_host_witness(kf, host)
    rec = rt.Recorder(ID, "witness", 0, 0, 1)
    cfgs = envs.CFGS if w.get("cfg", "*") == "*" else [tuple(w["cfg"])]
    for cfg in cfgs:
        judge(rec, "witness", w.get("program", w["source"]), cfg, "witness")
    if rec.nviol or rec.known:
        return True, "%s" % kf["mechanism"]
    return False, "witness passes"


def _other_host_witness(kf, host):
    import json
    import os
    import subprocess
    import tempfile
    w = kf["witness"]
    py = envs.interpreter(host)
    if not py:
        return None, "host %s not available" % host
    src = w.get("program") or ("print(%s)\n" % w["source"])
    with tempfile.NamedTemporaryFile("w", suffix=".json", delete=False) as f:
        json.dump({"case": {"src": src, "cfg": ["oneliner", "list", "if_expr"], "name": "witness"}}, f)
    try:
        p = subprocess.run([py, "-m", "olverif.worker", "replay", ID, f.name], capture_output=True,
                           text=True, timeout=120, env=envs.worker_env())
    finally:
        os.unlink(f.name)
    try:
        r = json.loads(p.stdout)
    except ValueError:
        return None, "witness replay failed: " + (p.stdout + p.stderr)[-200:]
    if r["violations"] or r["known"]:
        return True, "%s [witness on host %s]" % (kf["mechanism"], host)
    return False, "witness passes (on host %s the conversion is refused or well-formed)" % host
