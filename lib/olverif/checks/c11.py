"""C11 - functions keep their signature, call binding, defaults and decorators.

M2+M3: for every parameter-list shape (<= 2 parameters per kind, every legal default placement) the
function returns the tuple of all its parameters; original and converted callable are driven through
the same battery of call shapes and must agree on (bound arguments | exception type). Definition-time
logs of default and decorator probes, inspect.signature (modulo annotations) and results are compared.
"""
import inspect
import itertools

from .. import envs, observe, rt

ID = "C11"
LEVEL = "exploration"
TECHNIQUE = "runtime differential monitor: original vs converted callable driven through an exhaustive call-shape battery; definition-time probe log"
RULE = ("exhaustive: all legal parameter-list shapes with <=2 positional-only, <=2 positional-or-keyword, +-*args, "
        "<=2 keyword-only, +-**kwargs and every legal default placement (756 shapes), with/without annotations, as "
        "plain function / method / nested function / function decorated with 1-2 logging decorators / lambda-free "
        "closure over a captured default; x a battery of ~40 call shapes derived from the signature (too few/exact/"
        "too many positionals, each name by keyword, duplicates, unknown keyword, positional-only by keyword, star "
        "and double-star expansion) x option combinations. Distinct by (shape, variant, options); non-trivial iff "
        "the shape has at least one parameter."
        ' Variant guard-return: bare returns taken or not depending on the bound arguments in a function whose last statement is a valued return.')
ASSUMPTIONS = ["exception *types* are compared, not messages (they mention <lambda> in the translation)",
               "annotations are excluded from the signature comparison (the property excludes them)"]
EXHAUSTIVE = {"quick": True, "thorough": True}
FLOOR = {"quick": 3000, "thorough": 20000}
MONITORS = False
VARIANTS = ["plain", "annotated", "method", "nested", "deco1", "deco2", "closure-default", "closure-local-default", "class-attr-default", "captured-params", "captured-params-class", "multi-return", "guard-return"]


def shapes():
    for po, ar, va, ko, kw in itertools.product(range(3), range(3), range(2), range(3), range(2)):
        npos = po + ar
        for nd in range(npos + 1):
            for kmask in range(2 ** ko):
                yield po, ar, va, ko, kw, nd, kmask


def render(shape, variant):
    po, ar, va, ko, kw, nd, kmask = shape
    ann = variant == "annotated"
    pos = ["p%d" % i for i in range(po)] + ["a%d" % i for i in range(ar)]
    parts = []
    for i, n in enumerate(pos):
        d = '=d("%s")' % n if i >= len(pos) - nd else ""
        if variant in ("closure-default", "closure-local-default", "class-attr-default") and d:
            d = "=cap + d(\"%s\")" % n
        parts.append(n + (": int" if ann else "") + (" " + d.replace("=", "= ", 1) if ann and d else d))
        if i == po - 1:
            parts.append("/")
    if va:
        parts.append("*va" + (": int" if ann else ""))
    elif ko:
        parts.append("*")
    kos = []
    for i in range(ko):
        d = '=d("k%d")' % i if kmask >> i & 1 else ""
        if variant in ("closure-default", "closure-local-default", "class-attr-default") and d:
            d = '=cap + d("k%d")' % i
        kos.append("k%d" % i)
        parts.append("k%d" % i + (": 'str'" if ann else "") + (" " + d.replace("=", "= ", 1) if ann and d else d))
    if kw:
        parts.append("**kw" + (": dict" if ann else ""))
    names = pos + (["va"] if va else []) + kos + (["kw"] if kw else [])
    ret = "(%s)" % "".join(n + ", " for n in names)
    arrow = " -> tuple" if ann else ""
    L = []
    if variant in ("plain", "annotated"):
        L += ["def f(%s)%s:" % (", ".join(parts), arrow), "    return " + ret]
    elif variant == "method":
        L += ["class K:", "    def m(%s):" % ", ".join(["self"] + parts), "        return " + ret,
              "    @staticmethod", "    def s(%s):" % ", ".join(parts), "        return " + ret,
              "f = K().m", "g = K.s"]
    elif variant == "nested":
        L += ["def outer():", "    def f(%s):" % ", ".join(parts), "        return " + ret, "    return f", "f = outer()"]
    elif variant == "deco1":
        L += ["@deco('A')", "def f(%s):" % ", ".join(parts), "    return " + ret]
    elif variant == "deco2":
        L += ["@deco('A')", "@deco('B')", "def f(%s):" % ", ".join(parts), "    return " + ret]
    elif variant == "closure-default":
        L += ["def outer(cap):", "    def f(%s):" % ", ".join(parts), "        return " + ret,
              "    def g():", "        return cap", "    return f", "f = outer('c:')"]
    elif variant == "closure-local-default":
        # the defaults read a *local* of the defining function that another inner function captures and rebinds
        L += ["def outer():", "    cap = 'c:'", "    def g():", "        nonlocal cap", "        cap = cap + 'x'", "        return cap", "    g()",
              "    def f(%s):" % ", ".join(parts), "        return " + ret, "    g()", "    return f", "f = outer()"]
    elif variant == "multi-return":
        # which `return` is taken depends on the bound arguments: returns inside a loop, a loop's else clause, a while
        # loop behind a continue, a bare return and falling off the end
        L += ["def f(%s):" % ", ".join(parts), "    vals = list(" + ret + ")",
              "    for v in vals:", "        if v == 0:", "            return ('zero-first', len(vals))", "        if v == 1:", "            break",
              "    else:", "        if len(vals) > 3:", "            return ('many', len(vals))", "        if len(vals) == 0:", "            return",
              "        vals.append('after-conditional-return')", "        return ('else-end', len(vals))",
              "    while vals:", "        x = vals.pop()", "        if x == 'end' or x == 5:", "            continue",
              "        if x == 2:", "            return ('two', len(vals))", "        vals.append('end')", "        return ('last', repr(x), len(vals))"]
    elif variant == "guard-return":
        # guard clauses: bare `return` (no value) taken or not depending on the bound arguments, in a function whose *last*
        # statement is a valued return
        L += ["def f(%s):" % ", ".join(parts), "    vals = list(" + ret + ")", "    if len(vals) % 2 == 0:", "        return",
              "    for v in vals:", "        if v == 1:", "            return", "        if v == 2:", "            break",
              "    n = 0", "    while n < len(vals):", "        n += 1", "        if vals[n - 1] == 3:", "            return",
              "    return ('tail', len(vals), n)"]
    elif variant == "captured-params":
        # every parameter (also *va / **kw) is read - and the first one rebound - by an inner function
        first = names[0] if names else None
        L += ["def f(%s):" % ", ".join(parts), "    def inner():"]
        if first:
            L += ["        nonlocal " + first, "        %s = %s" % (first, first)]
        L += ["        return " + ret, "    return inner()"]
    elif variant == "captured-params-class":
        # every parameter is read by a class body and by a method defined inside the function
        L += ["def f(%s):" % ", ".join(parts), "    class Holder:", "        seen = " + ret, "        def get(self):",
              "            return " + ret, "    return Holder.seen + Holder().get()"]
    elif variant == "class-attr-default":
        # the defaults read an attribute of the defining class body
        L += ["class K:", "    cap = 'k:'", "    def m(%s):" % ", ".join(["self"] + parts), "        return " + ret,
              "    cap = 'later'", "f = K().m"]
    return "\n".join(L) + "\n", pos, kos


def calls(pos, kos, po):
    n = len(pos)
    out = []
    for k in range(0, n + 2):
        out.append(", ".join(str(i) for i in range(k)))
    allk = ", ".join("%s=1" % x for x in kos)
    for k in range(0, n + 1):
        base = ", ".join(str(i) for i in range(k))
        rest = ", ".join("%s=%d" % (x, i) for i, x in enumerate(pos[k:]))
        for extra in ["", allk, "zz=9"]:
            out.append(", ".join(x for x in (base, rest, extra) if x))
    if pos:
        out.append("%s=5, " % pos[0] + allk if allk else "%s=5" % pos[0])
        out.append("0, %s=5" % pos[0])
        out.append("*[7], %s=5" % pos[-1])
    out.append("*[1,2,3]")
    out.append('**{"k0":1,"q":2}')
    out.append("*(), **{}")
    out.append("*[1], *[2]" + (", " + allk if allk else ""))
    if kos:
        out.append(", ".join(["0"] * n + ["%s=1" % kos[0], "%s=2" % kos[-1]]) if len(kos) > 1
                   else ", ".join(["0"] * n + ["%s=1" % kos[0]]))
        out.append(", ".join(["0"] * n + ["**{'%s': 3}" % kos[0]] + ["%s=4" % k for k in kos[1:]]))
        out.append(", ".join(["0"] * n + ["%s=1" % kos[0], "**{'%s': 3}" % kos[0]]))
    return list(dict.fromkeys(out))


def mkenv():
    log = []

    def d(n):
        log.append(("default", n))
        return n

    def deco(tag):
        log.append(("deco-eval", tag))

        def wrap(fn):
            log.append(("deco-apply", tag))

            def inner(*a, **k):
                return (tag, fn(*a, **k))
            inner.__wrapped_fn__ = fn
            return inner
        return wrap
    return {"d": d, "deco": deco, "__name__": "__main__"}, log


def sig_of(fn):
    fn = getattr(fn, "__wrapped_fn__", fn)
    fn = getattr(fn, "__wrapped_fn__", fn)
    try:
        return [(p.name, str(p.kind), p.default) for p in inspect.signature(fn).parameters.values()]
    except (TypeError, ValueError) as e:
        return "nosig:" + type(e).__name__


def run_case(rec, shape, variant, cfg):
    src, pos, kos = render(shape, variant)
    case = {"shape": list(shape), "variant": variant, "cfg": list(cfg), "src": src}
    o, to = rt.guarded(lambda: observe.differential(src, cfg, mkenv, globals_cmp=False, keep=True))
    if to:
        rec.inconc("case-timeout")
        return
    if o.ood:
        rec.inconc(o.status)
        return
    if not o.ok:
        rec.violation("definition:" + o.status, case, o.detail)
        return
    g1, g2 = o.g1, o.g2
    fnames = ["f"] + (["g"] if variant == "method" else [])
    for fname in fnames:
        s1, s2 = sig_of(g1[fname]), sig_of(g2[fname])
        if s1 != s2:
            rec.violation("signature", dict(case, fn=fname), {"expected": repr(s1), "observed": repr(s2)})
            return
        for call in calls(pos, kos, shape[0]):
            def do(g):
                try:
                    return ("ok", repr(eval("%s(%s)" % (fname, call), g)))
                except rt.CaseTimeout:
                    raise
                except BaseException as e:
                    return ("exc", type(e).__name__)
            r1, r2 = do(g1), do(g2)
            rec.count("calls-compared")
            if r1[0] == "ok":
                rec.count("calls-accepted")
            else:
                rec.count("calls-rejected")
            if r1 != r2:
                rec.violation("call-binding", dict(case, fn=fname, call=call), {"expected": r1, "observed": r2})
                return
    rec.ok((shape, variant, cfg), nontrivial=bool(pos or kos or shape[2] or shape[4]))
    if len(rec.samples) < 2 and shape[0] == 1 and shape[3] == 2 and variant == "deco2":
        rec.sample({"source": src, "options": cfg, "calls": calls(pos, kos, shape[0])[:8]})


def run_shard(rec):
    idx = 0
    for shape in shapes():
        for vi, variant in enumerate(VARIANTS):
            idx += 1
            if idx % rec.nshards != rec.shard:
                continue
            for cfg in envs.CFGS:
                run_case(rec, shape, variant, cfg)


def replay(case, rec):
    run_case(rec, tuple(case["shape"]), case["variant"], tuple(case["cfg"]))


def run_witness(kf):
    return None, "no witness runner"
