"""C12 - classes keep their members, bases, metaclass, method kinds and super().

M2+M3: a fixed observation function *injected by the harness* (it needs try/except, which the converter
cannot translate) describes the class created by the original and by the translation: filtered
vars(cls) keys/kinds/values, MRO names, metaclass, results of calling every member on an instance and
on a subclass, class-creation side effects. The descriptions must be equal.
"""
import itertools

from .. import envs, observe, rt, findings

ID = "C12"
LEVEL = "exploration"
TECHNIQUE = "runtime differential monitor over a class-skeleton product with an injected observation function"
RULE = ("class skeletons: bases {none, one, two, inherited chain, diamond, base with metaclass} x metaclass {none, "
        "explicit} x class keywords {none, one -> __init_subclass__} x decorators {0, 1, 2, one returning a subclass, one that instantiates the class and calls its methods while decorating} x placement {module, function, class, loop, function with two further super()-using classes, class statement executed twice by a loop in a function, class created inside a super()-using method} = full header product x every single member kind (data attribute, method, staticmethod, classmethod, "
        "property with setter, nested class, lambda attribute, comprehension attribute, if/for/while in the body, zero- "
        "and two-argument super(), __init_subclass__, __slots__, descriptor with __set_name__, private name, docstring, "
        "dunder methods, class variable as method default, annotated member, method closing over a function local, "
        "augmented class attribute, walrus-free conditional member, metaclass-visible member) plus every pair and triple "
        "of member kinds under rotating headers; x option combinations (2 rotating in quick, 8 in thorough); hosts 3.12 + "
        "hash-selected slices on 3.11 and 3.13 (thorough: 3.10-3.13). Distinct by (header, members, placement, options); non-trivial iff the class "
        "has at least one member or a non-trivial header.")
ASSUMPTIONS = ["metadata attributes (__module__, __qualname__, __doc__, __firstlineno__, __static_attributes__, __annotations__) are excluded, as the property states",
               "members are compared by kind/name and data values by repr; behaviour by calling them"]
EXHAUSTIVE = {"quick": False, "thorough": False}
FLOOR = {"quick": 10000, "thorough": 60000}
MONITORS = False

PRE = '''
class Meta(type):
    def __new__(m, name, bases, ns, **kw):
        ns = dict(ns)
        ns['seen_by_meta'] = sorted(k for k in ns if not k.startswith('__'))
        return super().__new__(m, name, bases, ns, **kw)
    def hello(cls): return 'meta:' + cls.__name__
class B1:
    b1 = 'b1'
    def who(self): return 'B1'
    def __init_subclass__(cls, tag=None, **kw):
        super().__init_subclass__(**kw)
        cls.tag = tag
        cls.attrs_at_subclass_time = sorted(k for k in vars(cls) if not k.startswith('__'))
class B2:
    b2 = 'b2'
    def who(self): return 'B2'
class D1(B1): pass
class D2(B1): pass
class MB(metaclass=Meta): pass
def deco1(c):
    c.d1 = 'd1'
    return c
def deco2(c):
    c.d2 = getattr(c, 'd1', 'nod1') + '+d2'
    return c
def trace(fn):
    # a decorator that *calls* what it received (it must get the function, not a classmethod object)
    def wrapper(*a, **k):
        return ('traced', fn(*a, **k))
    wrapper.kind_received = type(fn).__name__
    return wrapper
GX = 'global-gx'
class Desc:
    def __set_name__(self, owner, name): self.name = name
    def __get__(self, obj, tp=None): return 'desc:' + getattr(self, 'name', '?')
'''
BASES = {'none': '', 'one': 'B1', 'two': 'B1, B2', 'chain': 'D1', 'diamond': 'D1, D2', 'metabase': 'MB'}
META = {'no': '', 'explicit': 'metaclass=Meta'}
KW = {'no': '', 'one': "tag='t'"}
DECOS = {0: [], 1: ['@deco1'], 2: ['@deco2', '@deco1'], 'sub': ['@deco_sub'], 'call': ['@deco1', '@deco_call']}
MEMBERS = {
    'data': ["x = 1", "y = x + 1"],
    'method': ["def m(self, a=2):", "    return ('m', a)"],
    'static': ["@staticmethod", "def s(a):", "    return ('s', a)"],
    'classm': ["@classmethod", "def c(cls):", "    return ('c', cls.__name__)"],
    'prop': ["@property", "def p(self):", "    return 'p'", "@p.setter", "def p(self, v):", "    self._pv = v"],
    'nested': ["class Inner:", "    z = 3", "    def im(self):", "        return 'im'"],
    'lambda': ["lam = lambda self, q=1: ('lam', q)"],
    'comp': ["sq = [i * i for i in range(3)]"],
    'bodyif': ["if True:", "    bi = 'yes'", "else:", "    bi = 'no'"],
    'bodyfor': ["acc = []", "for i in range(3):", "    acc.append(i)"],
    'bodywhile': ["n = 0", "while n < 3:", "    n += 1"],
    'super0': ["def who(self):", "    return 'K>' + (super().who() if hasattr(super(), 'who') else '-')"],
    'super2': ["def who2(self):", "    return 'K2>' + (super(K, self).who() if hasattr(super(K, self), 'who') else '-')"],
    'initsub': ["def __init_subclass__(cls, **kw):", "    super().__init_subclass__(**kw)", "    cls.sub_seen = True"],
    'slots': ["__slots__ = ('sl',)"],
    'desc': ["dd = Desc()"],
    'private': ["__pv = 5", "def getpv(self):", "    return self.__pv, self.__pm(2), self.__st.digits[:2], self.__sep, self.__Nested().get(), self.__ps()",
                "def __ps(self):", "    r = []", "    for _ in range(2):", "        r.append(hasattr(super(), 'who') and super().who())", "    return r",
                "def __pm(self, __arg, *, __kw=1):", "    return [__arg + __kw + __q for __q in range(2)]",
                "import string as __st", "from os import sep as __sep",
                "class __Nested:", "    __z = 'nested-private'", "    def get(self):", "        return self.__z, type(self).__name__"],
    'doc': ["'docstring'", "w = 1"],
    'dunder': ["def __repr__(self):", "    return 'K()'", "def __eq__(self, o):", "    return True", "__hash__ = None"],
    'classvar_in_method_default': ["dv = 7", "def md(self, a=dv):", "    return a"],
    'annotated': ["an: int = 4", "bare: str"],
    'augattr': ["cnt = 1", "cnt += 2", "lst = [1]", "lst += [2]"],
    'condmember': ["flag = 1", "if flag:", "    def cm2(self):", "        return 'cm2'", "else:", "    cm2 = None"],
    'staticcall_in_body': ["def _helper(v):", "    return v * 2", "hv = _helper(21)"],
    'super_in_classmethod': ["@classmethod", "def mk(cls):", "    return super().__new__(cls)"],
    'init': ["def __init__(self):", "    super().__init__()", "    self.iv = 'set-in-init'"],
    'super0_in_loops': ["def who(self):", "    out = []", "    for i in range(2):", "        out.append('K' + str(i) + '>' + (super().who() if hasattr(super(), 'who') else '-'))",
                        "    n = 0", "    while n < 1:", "        n += 1", "        if hasattr(super(), 'who'):", "            out.append(super().who())", "    return out",
                        "@classmethod", "def c(cls):", "    for _ in range(1):", "        r = ('c-in-loop', cls.__name__, super().__name__ if False else cls.__mro__[1].__name__)", "    return r"],
    'kwdefault_classvar': ["LIMIT = 3", "def take(self, *items, n=LIMIT, m=(LIMIT, 'm')):", "    return (n, m, len(items))", "@staticmethod", "def stake(*, n=LIMIT):", "    return n",
                           "@classmethod", "def ctake(cls, a=LIMIT, *, n=[LIMIT]):", "    return (a, n)", "LIMIT = 'rebound-later'"],
    'initsub_decorated': ["@trace", "def __init_subclass__(cls, **kw):", "    super().__init_subclass__(**kw)", "    cls.sub_seen = 'traced-hook-ran'"],
    'decorated_methods': ["@trace", "def m(self, a=2):", "    return ('m', a)", "@staticmethod", "@trace", "def s(a):", "    return ('s', a)", "@classmethod", "@trace", "def c(cls):", "    return ('c', cls.__name__)",
                          "@property", "@trace", "def p(self):", "    return 'p'"],
    # positional-only receiver: zero-argument super() must still find the first parameter
    'super0_posonly': ["def who(self, /):", "    out = []", "    for i in range(2):", "        out.append('P' + str(i) + '>' + (super().who() if hasattr(super(), 'who') else '-'))", "    return out",
                       "def who3(self, /, x=1, *, y=2):", "    n = 0", "    while n < 1:", "        n += 1", "        r = (x, y, hasattr(super(), 'who'), super().__init__ is not None)", "    return r",
                       "@classmethod", "def c(cls, /, z=3):", "    for _ in range(1):", "        r = ('c-posonly', z, super().__init_subclass__ is not None, cls.__name__)", "    return r"],
    # hooks that type() turns into class methods by itself, spelled with and without an explicit decorator
    'classgetitem': ["def __class_getitem__(cls, key):", "    return ('implicit', cls.__name__, key)"],
    'classgetitem_decorated': ["@classmethod", "def __class_getitem__(cls, key):", "    return ('explicit', cls.__name__, key)"],
    'initsub_classmethod': ["@classmethod", "def __init_subclass__(cls, **kw):", "    super().__init_subclass__(**kw)", "    cls.sub_seen = 'explicit-classmethod:' + cls.__name__"],
    # the body reads a name before (or without) binding it: global / builtin of that name, never KeyError
    'read_before_bind': ["gx0 = 'pre:' + GX", "GX = 'member'", "gx1 = GX", "ln0 = len('abc')", "len = 'shadowed'", "ln1 = len",
                         "for _i in range(2):", "    if _i:", "        late = 'bound-on-second-pass'", "    seen_late = late if _i else 'not-yet'",
                         "def rb(self, a=GX, b=len):", "    return (a, b, GX)"],
    # zero-argument super() in every *header* position of loops and branches (while test, for iterable, if test, loop else)
    'super0_in_headers': ["def who(self):", "    out = []", "    n = 0",
                          "    while n < 2 and (super().who() if hasattr(super(), 'who') else '-') != 0:", "        n += 1", "        out.append(n)",
                          "    else:", "        out.append(('welse', hasattr(super(), 'who')))",
                          "    for q in [super().__init__ is not None, hasattr(super(), 'who')]:", "        if hasattr(super(), 'who') or q:", "            out.append(q)",
                          "    else:", "        out.append('felse')",
                          "    while hasattr(super(), '__init__'):", "        while hasattr(super(), 'nope'):", "            pass", "        break",
                          "    return out + [t for t in [1] if hasattr(super(__class__, self), '__init__')]",
                          "@classmethod", "def c(cls):", "    k = 0", "    while hasattr(super(), '__init__') and k < 1:", "        k += 1",
                          "    return ('c-while-test', k, cls.__name__)"],
    # functions nested in a method that mention super / __class__ (implicit cell of the nearest class, PEP 3135)
    'super_nested': ["def who(self):", "    def helper():", "        return 'N>' + (super(__class__, self).who() if hasattr(super(__class__, self), 'who') else '-')",
                     "    def helper0(me, /, *rest):", "        return 'Z>' + (super().who() if hasattr(super(), 'who') else '-')",
                     "    def deeper():", "        def deepest():", "            return __class__.__name__", "        return deepest()",
                     "    return [helper(), helper0(self), deeper(), (lambda: super(__class__, self).__init__ is not None)()]"],
    # a function of the body that only *mentions* super and is called while the body still runs
    'super_mentioned_at_body_time': ["def _early():", "    return super.__name__", "early = _early()", "def m5(self, a=early):", "    return ('m5', a)"],
    'classcell': ["def cc(self):", "    return __class__.__name__", "def cc_super(self):", "    return super().__class__.__name__, super().__init__ is not None"],
}
CALLS = ('m', 'm5', 's', 'c', 'p', 'im', 'lam', 'who', 'who2', 'getpv', 'dd', 'md', 'tag', 'hello', 'd1', 'd2')

OBS = '''
def deco_sub(c):
    # returns a *subclass* of the class it received
    return type(c.__name__ + 'Sub', (c,), {'from_deco': 'sub'})
def deco_call(c):
    # uses the class while decorating it: instantiates it and calls what it finds
    try:
        o = c()
        c.at_deco_time = [getattr(o, n)() for n in ('who', 'cc', 'm') if hasattr(o, n)]
    except Exception as e:
        c.at_deco_time = 'exc:' + type(e).__name__
    return c
def _obs(K):
    out = []
    skip = {'__module__', '__dict__', '__weakref__', '__doc__', '__qualname__', '__firstlineno__', '__static_attributes__', '__annotations__', '__annotate__', '__annotate_func__', '__annotations_cache__'}
    for k in sorted(vars(K)):
        if k in skip: continue
        v = vars(K)[k]
        if isinstance(v, (int, str, list, tuple, type(None))): out.append((k, repr(v)))
        else: out.append((k, type(v).__name__))
    out.append(('mro', [c.__name__ for c in K.__mro__]))
    out.append(('meta', type(K).__name__))
    out.append(('name', K.__name__))
    try: o = K()
    except Exception as e: out.append(('inst', type(e).__name__)); return out
    for name, call in [('m', lambda: o.m()), ('m5', lambda: o.m(5)), ('s', lambda: K.s(1)), ('c', lambda: K.c()), ('p', lambda: o.p), ('im', lambda: K.Inner().im()), ('lam', lambda: o.lam()),
                       ('who', lambda: o.who()), ('who2', lambda: o.who2()), ('getpv', lambda: o.getpv()), ('dd', lambda: o.dd), ('md', lambda: o.md()), ('tag', lambda: K.tag), ('hello', lambda: K.hello()),
                       ('d1', lambda: K.d1), ('d2', lambda: K.d2), ('hasdict', lambda: hasattr(o, '__dict__')), ('repr', lambda: repr(o) if 'K()' == repr(o) else 'default'),
                       ('cm2', lambda: o.cm2()), ('cc', lambda: o.cc()), ('cc_super', lambda: o.cc_super()), ('at_deco_time', lambda: K.at_deco_time), ('from_deco', lambda: K.from_deco), ('ps', lambda: (K.ps, K.pt, o.pm())), ('take', lambda: (o.take(), o.take(1, n=0), K.stake(), K.ctake(), K.take.__kwdefaults__)), ('kind_received', lambda: K.__dict__['__init_subclass__'].__func__.kind_received), ('hv', lambda: K.hv), ('mk', lambda: type(K.mk()).__name__), ('iv', lambda: o.iv), ('setp', lambda: (setattr(o, 'p', 3), o._pv)[1]),
                       ('cgi', lambda: K[0]), ('rb', lambda: o.rb()), ('who3', lambda: (o.who3(), o.who3(5, y=6))), ('seen_by_meta', lambda: K.seen_by_meta), ('attrs_at_subclass_time', lambda: K.attrs_at_subclass_time), ('sc', lambda: K().s(2)), ('cnt', lambda: (K.cnt, K.lst))]:
        try: out.append((name, repr(call())))
        except Exception as e: out.append((name, 'exc:' + type(e).__name__))
    try:
        class Sub(K): pass
        out.append(('sub_seen', getattr(Sub, 'sub_seen', None)))
        try: out.append(('subwho', Sub().who()))
        except Exception as e: out.append(('subwho', 'exc:' + type(e).__name__))
        try: out.append(('subc', Sub.c()))
        except Exception as e: out.append(('subc', 'exc:' + type(e).__name__))
        try: out.append(('subcgi', Sub['k']))
        except Exception as e: out.append(('subcgi', 'exc:' + type(e).__name__))
    except Exception as e:
        out.append(('subclassing', 'exc:' + type(e).__name__))
    return out
'''
_NS = {}
exec(OBS, _NS)
_obs = _NS['_obs']
_deco_sub = _NS['deco_sub']
_deco_call = _NS['deco_call']


def program(b, m, kw, d, members, place):
    hdr = ', '.join(x for x in (BASES[b], KW[kw] if b in ('one', 'two', 'chain', 'diamond') else '',
                                META[m] if b != 'metabase' or m == 'no' else '') if x)
    lines = list(DECOS[d]) + ["class K(%s):" % hdr if hdr else "class K:"]
    body = []
    for mem in members:
        body += MEMBERS[mem]
    if place == 'funcparam':
        # the class body (not a method, not the header) reads parameters of the enclosing function that were rebound
        # before the class statement ran
        body = ["ps = size", "pt = (tag, size)", "def pm(self):", "    return (size, tag)"] + body
    if not body:
        body = ['pass']
    lines += ['    ' + l for l in body]
    if place == 'module':
        return PRE + '\n'.join(lines) + "\nprint(_obs(K))\n"
    if place == 'func':
        return PRE + "def mk():\n" + '\n'.join('    ' + l for l in lines) + "\n    return K\nprint(_obs(mk()))\n"
    if place == 'class':
        return PRE + "class Outer:\n" + '\n'.join('    ' + l for l in lines) + "\nprint(_obs(Outer.K))\n"
    if place == 'loop':
        return PRE + "for _r in range(2):\n" + '\n'.join('    ' + l for l in lines) + "\n    print(_obs(K))\n"
    ind = lambda n: '\n'.join('    ' * n + l for l in lines)
    if place == 'funcparam':
        return (PRE + "def mk(size=None, tag='p'):\n    if size is None:\n        size = 4\n    def bump():\n        nonlocal tag\n        tag = tag + '!'\n    bump()\n"
                + ind(1) + "\n    size = 'rebound-after'\n    return K\nprint(_obs(mk()))\nprint(_obs(mk(7, 'q')))\n")
    if place == 'func2':
        # two class statements in one function, both with zero-argument super()
        return (PRE + "def mk():\n    class Pre(B2):\n        def who(self):\n            return 'Pre>' + super().who()\n" + ind(1)
                + "\n    class Post(B2):\n        def who(self):\n            return 'Post>' + super().who()\n    return K, Pre, Post\n"
                + "_k, _pre, _post = mk()\nprint(_obs(_k))\nprint(_pre().who(), _post().who())\n")
    if place == 'funcloop':
        # the class statement is executed twice by a loop inside a function; the first class is observed afterwards
        return (PRE + "def mk():\n    made = []\n    for _r in range(2):\n" + ind(2) + "\n        made.append(K)\n    return made\n"
                + "_m = mk()\nprint(_obs(_m[0]))\nprint(_obs(_m[1]))\nprint(_m[0] is _m[1])\n")
    if place == 'inmethod':
        # the class is created inside a method that itself uses zero-argument super()
        return (PRE + "class Factory(B2):\n    def who(self):\n" + ind(2) + "\n        return K, 'F>' + super().who()\n"
                + "_k, _w = Factory().who()\nprint(_w)\nprint(_obs(_k))\nprint(Factory().who()[1])\n")


HEADERS = list(itertools.product(BASES, META, KW, DECOS))
PLACES = ['module', 'func', 'class', 'loop', 'func2', 'funcloop', 'inmethod', 'funcparam']


def cells(tier):
    # (1) full header product x single member kinds x placement
    for (b, m, kw, d), pl in itertools.product(HEADERS, PLACES):
        for mem in list(MEMBERS) + [None]:
            if mem == 'super2' and pl != 'module':
                continue
            yield (b, m, kw, d), ([mem] if mem else []), pl
    # (2) pairs and triples under rotating headers
    names = [k for k in MEMBERS if k != 'super2']
    i = 0
    for r in (2, 3):
        for combo in itertools.combinations(names, r):
            if 'slots' in combo and ('data' in combo or 'augattr' in combo) and False:
                continue
            reps = (2 if r == 2 else 1) if tier == "quick" else 8
            for j in range(reps):
                i += 1
                yield HEADERS[(i * 7) % len(HEADERS)], list(combo), PLACES[i % len(PLACES)]


def mkenv():
    # harness helpers that need try/except (which the converter cannot translate) are injected into both namespaces
    return {"__name__": "__main__", "_obs": _obs, "deco_sub": _deco_sub, "deco_call": _deco_call}, []


def run_case(rec, hdr, members, pl, cfg):
    src = program(hdr[0], hdr[1], hdr[2], hdr[3], members, pl)
    o, to = rt.guarded(lambda: observe.differential(src, cfg, mkenv, globals_cmp=False), 30)
    if to:
        rec.inconc("case-timeout")
        return
    if o.ood:
        rec.inconc("original-raises")
        return
    case = {"header": list(hdr), "members": members, "place": pl, "cfg": list(cfg), "src": src}
    trig = findings.triggered(ID, src=src, cfg=cfg)
    if o.ok:
        rec.ok((hdr, tuple(members), pl, cfg), nontrivial=bool(members) or hdr != ('none', 'no', 'no', 0))
        for mem in members:
            rec.note("member kinds held", mem)
        for k in trig:
            rec.count("tainted-but-held:" + k["id"])
        if len(rec.samples) < 2 and len(members) == 3 and pl == "func":
            rec.sample({"header": list(hdr), "members": members, "place": pl, "options": cfg, "class_statement": src[len(PRE):]})
        return
    kid = findings.attribute(trig, o.status)
    if kid:
        rec.known_finding(kid)
        return
    why = observe.interpreter_defect_312(o, src, OBS)
    if why:
        rec.inconc(why)
        return
    rec.violation(o.status, case, o.detail)


def jobs(tier, seed):
    from ..driver import NCPU
    out = [{"host": "3.12", "shard": i, "nshards": NCPU, "args": {}} for i in range(NCPU)]
    for h in (["3.11", "3.13"] if tier == "quick" else ["3.10", "3.11", "3.13"]):
        n = 4 if tier == "quick" else 8
        out += [{"host": h, "shard": i, "nshards": n, "args": {"other_host": True}} for i in range(n)]
    return out


def run_shard(rec):
    idx = 0
    other = rec.args.get("other_host")
    for hdr, members, pl in cells(rec.tier):
        if other and rec.tier == "quick" and int(rt.h8([list(hdr), members, pl]), 16) % 6:
            continue          # a hash-selected sixth (a stride would alias with the loop structure)
        idx += 1
        if idx % rec.nshards != rec.shard:
            continue
        if rec.out_of_budget():
            rec.truncated += 1
            continue
        if rec.tier == "quick":
            k = (idx + rec.seed) % 8
            cfgs = [envs.CFGS[k], envs.CFGS[(k + 3) % 8]]
        else:
            cfgs = envs.CFGS
        for cfg in cfgs:
            run_case(rec, hdr, members, pl, cfg)


def replay(case, rec):
    run_case(rec, tuple(case["header"]), case["members"], case["place"], tuple(case["cfg"]))


def run_witness(kf):
    w = kf["witness"]
    cfgs = envs.CFGS if w.get("cfg", "*") == "*" else [tuple(w["cfg"])]
    for cfg in cfgs:
        o = observe.differential(w["source"], cfg, mkenv, globals_cmp=False)
        if not o.ok and not o.ood:
            return True, "%s [witness -> %s]" % (kf["mechanism"], o.status)
    return False, "witness passes"
