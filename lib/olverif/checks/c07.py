"""C07 - each source subexpression is evaluated once, in Python's order.

M3: every subexpression of a statement template is `p(k, value)`; objects handed out by probes log
their __getitem__/__setitem__/__getattr__/__setattr__/in-place calls as secondary events. The ordered
event logs of exec(source) and eval(translation) must be identical.
"""
import itertools

from .. import envs, observe, rt, findings

ID = "C07"
LEVEL = "exploration"
TECHNIQUE = "runtime trace monitor: ordered probe log of every subexpression, exec(source) vs eval(translation)"
RULE = ("exhaustive over a template catalogue (every template also in variants where exactly one probe is replaced by its bare value, so that literal / computed special cases of a lowering are exercised): every assignment target shape (name, attribute, subscript, slice with "
        "each subset of bounds, tuple/list patterns, nested, starred, chained with 2-3 targets, annotated), 13 augmented "
        "operators x {name, attribute, subscript, slice, tuple-index} targets, def with positional/keyword-only defaults "
        "and 1-3 decorators, lambda defaults, class with bases/keywords/metaclass/decorators, if/elif, while, for "
        "headers, return, calls mixing positional/star/keyword/double-star arguments, comparison chains, boolean and "
        "conditional expressions, displays, comprehensions, f-strings, imports-free; x placement {module, function, "
        "class, method, loop body} x 8 option combinations. Distinct by (template, placement, options); non-trivial iff "
        "the original's log has >= 2 probe events (an order exists to be preserved).")
ASSUMPTIONS = ["annotations are not probed: the converter drops annotations by design (C11 excludes them)",
               "probe identity is the ordered list of (kind, id, operands) events; values are compared by repr"]
EXHAUSTIVE = {"quick": True, "thorough": True}
FLOOR = {"quick": 20000, "thorough": 20000}
MONITORS = False

OPS = ["+", "-", "*", "/", "//", "%", "**", "<<", ">>", "&", "|", "^", "@"]
OPN = ["add", "sub", "mul", "truediv", "floordiv", "mod", "pow", "lshift", "rshift", "and", "or", "xor", "matmul"]


def templates():
    T = {}
    # ---- plain assignment targets
    T["assign-name"] = ["x = p(1, 5)"]
    T["assign-attr"] = ["p(1, box('A')).a = p(2, 5)"]
    T["assign-sub"] = ["p(1, box('A'))[p(2, 0)] = p(3, 5)"]
    T["assign-sub-nested-obj"] = ["p(1, box('A'))[p(2, 0)].b[p(3, 1)] = p(4, 5)"]
    T["assign-tuple-index"] = ["p(1, box('A'))[p(2, 0), p(3, 1)] = p(4, 5)"]
    for mask in range(8):
        lo = "p(2, 0)" if mask & 1 else ""
        up = "p(3, 2)" if mask & 2 else ""
        st = ":p(4, 1)" if mask & 4 else ""
        T["assign-slice-%d" % mask] = ["p(1, box('A'))[%s:%s%s] = p(5, [9])" % (lo, up, st)]
    T["assign-slice-in-tuple"] = ["p(1, box('A'))[p(2, 0):p(3, 1), p(4, 2)] = p(5, 7)"]
    T["assign-tuple"] = ["a, b = p(1, (1, 2))"]
    T["assign-list-pattern"] = ["[a, b] = p(1, [1, 2])"]
    T["assign-tuple-complex-targets"] = ["p(1, box('A')).a, p(2, box('B'))[p(3, 0)] = p(4, (1, 2))"]
    T["assign-nested"] = ["(a, (p(1, box('A')).b, c)), d = p(2, ((1, (2, 3)), 4))"]
    T["assign-starred"] = ["a, *b, c = p(1, [1, 2, 3, 4])"]
    T["assign-starred-complex"] = ["p(1, box('A')).a, *p(2, box('B')).b, p(3, box('C'))[p(4, 0)] = p(5, [1, 2, 3, 4])"]
    T["assign-starred-first"] = ["*p(1, box('A')).a, b = p(2, 'xyz')"]
    T["assign-starred-last"] = ["a, *p(1, box('A'))[p(2, 1)] = p(3, range(3))"]
    T["assign-from-iterator"] = ["a, b = p(1, logiter('I', 2))"]
    T["assign-star-from-iterator"] = ["a, *b = p(1, logiter('I', 3))"]
    T["assign-chain-2"] = ["a = b = p(1, 5)"]
    T["assign-chain-3"] = ["a = b = c = p(1, [5])"]
    T["assign-chain-complex"] = ["p(1, box('A')).a = p(2, box('B'))[p(3, 0)] = p(4, 5)"]
    T["assign-chain-pattern"] = ["a, b = p(1, box('A')).t = c = p(2, (1, 2))"]
    T["assign-chain-iterator"] = ["a, b = c, d = p(1, [1, 2])"]
    T["assign-annotated"] = ["x: int = p(1, 5)"]
    T["assign-annotated-attr"] = ["p(1, box('A')).a: int = p(2, 5)"]
    T["assign-annotated-sub"] = ["p(1, box('A'))[p(2, 0)]: 'int' = p(3, 5)"]
    T["assign-walrus-value"] = ["x = (y := p(1, 5)) + p(2, 1)"]
    # ---- augmented assignment
    for op, n in zip(OPS, OPN):
        T["aug-name-" + n] = ["x = p(1, V(1))", "x %s= p(2, V(2))" % op]
        T["aug-attr-" + n] = ["p(1, box('A')).a %s= p(2, V(2))" % op]
        T["aug-sub-" + n] = ["p(1, box('A'))[p(2, 0)] %s= p(3, V(2))" % op]
        T["aug-slice-" + n] = ["p(1, box('A'))[p(2, 0):p(3, 2)] %s= p(4, V(2))" % op]
    # every slice bound absent / literal / probed, for augmented stores, plain stores and loads
    k = 1
    for lo in "alp":
        for up in "alp":
            for st in "alp":
                ids = iter(range(2, 9))
                part = lambda c, lit: "" if c == "a" else (lit if c == "l" else "p(%d, %s)" % (next(ids), lit))
                sl = "%s:%s" % (part(lo, "0"), part(up, "2")) + ("" if st == "a" else ":" + part(st, "1"))
                T["aug-slice-mix-%s%s%s" % (lo, up, st)] = ["p(1, box('A'))[%s] += p(9, V(2))" % sl]
                T["assign-slice-mix-%s%s%s" % (lo, up, st)] = ["p(1, box('A'))[%s] = p(9, [7])" % sl]
                T["aug-slice-in-tuple-mix-%s%s%s" % (lo, up, st)] = ["p(1, box('A'))[%s, p(10, 5)] -= p(9, V(2))" % sl]
    # object expressions of every shape in front of attribute / subscript / slice targets (each evaluated exactly once,
    # before the index, for augmented and plain stores)
    OBJ = {"probe": "p(1, box('A'))", "probe.attr": "p(1, box('A')).inner", "probe.attr.attr": "p(1, box('A')).inner.deep",
           "probe[probe]": "p(1, box('A'))[p(2, 0)]", "probe[probe].attr": "p(1, box('A'))[p(2, 0)].inner",
           "probe.attr[probe]": "p(1, box('A')).inner[p(2, 0)]", "call(probe).attr": "ident(p(1, box('A'))).inner",
           "probe.m(probe)": "p(1, box('A')).m(p(2, 0))", "(probe if probe else probe).attr": "(p(1, box('A')) if p(2, 1) else p(3, box('B'))).inner"}
    for oname, obj in OBJ.items():
        T["aug-attr-on-" + oname] = [obj + ".cnt += p(7, V(2))"]
        T["aug-sub-on-" + oname] = [obj + "[p(6, 1)] -= p(7, V(2))"]
        T["aug-slice-on-" + oname] = [obj + "[p(5, 0):p(6, 2)] *= p(7, V(2))"]
        T["assign-attr-on-" + oname] = [obj + ".cnt = p(7, 5)"]
        T["assign-sub-on-" + oname] = [obj + "[p(6, 1)] = p(7, 5)"]
    T["aug-literal-index"] = ["p(1, box('A'))[0] += p(2, V(2))", "p(3, box('B'))['k', 1] *= p(4, V(3))", "p(5, box('C'))[-1] //= p(6, V(4))"]
    T["aug-tuple-index"] = ["p(1, box('A'))[p(2, 0), p(3, 1)] += p(4, V(2))"]
    T["aug-slice-in-tuple"] = ["p(1, box('A'))[p(2, 0):p(3, 1), p(4, 2)] += p(5, V(2))"]
    T["aug-step-slice"] = ["p(1, box('A'))[p(2, 0)::p(3, 2)] *= p(4, V(2))"]
    T["aug-nested-obj"] = ["p(1, box('A')).b[p(2, 0)].c -= p(3, V(2))"]
    T["aug-int"] = ["x = p(1, 1)", "x += p(2, 2)", "x <<= p(3, 1)"]
    T["aug-value-uses-target"] = ["x = p(1, V(1))", "x += p(2, x)"]
    # ---- def / lambda / class headers
    T["def-defaults"] = ["def f(a=p(1, 1), b=p(2, 2), *c, k=p(3, 3), m=p(4, 4), **kw):", "    return p(5, a)", "f()", "f(p(6, 9))"]
    T["def-posonly-defaults"] = ["def f(a, b=p(1, 2), /, c=p(2, 3), *, d=p(3, 4)):", "    return (a, b, c, d)", "f(0)"]
    T["def-decorators-1"] = ["@p(1, deco('A'))", "def f(a=p(2, 1)):", "    return a", "f()"]
    T["def-decorators-2"] = ["@p(1, deco('A'))", "@p(2, deco('B'))", "def f(a=p(3, 1)):", "    return a", "f()"]
    T["def-decorators-3"] = ["@p(1, deco('A'))", "@p(2, decofactory)(p(3, 'B'))", "@p(4, deco('C'))", "def f(*, k=p(5, 1)):", "    return k", "f()"]
    T["lambda-defaults"] = ["f = lambda a=p(1, 1), *b, k=p(2, 2): p(3, a)", "f()", "f(p(4, 5))"]
    T["class-header"] = ["class C(p(1, Base1), p(2, Base2), metaclass=p(3, Meta), tag=p(4, 't')):", "    y = p(5, 1)"]
    T["class-header-kw-first"] = ["class C(p(1, Base1), tag=p(2, 't'), metaclass=p(3, Meta)):", "    y = p(4, 1)"]
    T["class-decorators"] = ["@p(1, deco('A'))", "@p(2, deco('B'))", "class C(p(3, Base1)):", "    y = p(4, 1)", "    def m(self, a=p(5, 2)):", "        return a"]
    # exactly one header expression, with effects in the body too (a lone expression must still run before the body)
    T["class-single-base"] = ["class C(p(1, Base2)):", "    x = p(2, 1)", "    def m(self, a=p(3, 2)):", "        return a"]
    T["class-single-metaclass"] = ["class C(metaclass=p(1, Meta)):", "    x = p(2, 1)"]
    T["class-single-keyword"] = ["class C(Base1, tag=p(1, 't')):", "    x = p(2, 1)"]
    T["class-single-keyword-only"] = ["class B0:", "    def __init_subclass__(cls, **kw):", "        pass", "class C(B0, **p(1, {})):", "    x = p(2, 1)"]
    T["class-single-decorator"] = ["@p(1, deco('A'))", "class C:", "    x = p(2, 1)"]
    T["class-single-decorator-call"] = ["@decofactory(p(1, 'B'))", "class C:", "    x = p(2, 1)", "    y = p(3, 2)"]
    T["class-no-header-body-order"] = ["class C:", "    x = p(1, 1)", "    y = [p(2, 2), p(3, 3)]", "    def m(self, a=p(4, 4)):", "        return a"]
    T["def-single-decorator-default-order"] = ["@p(1, deco('A'))", "def f(a=p(2, 1)):", "    return a"]
    T["class-star-bases"] = ["class C(*p(1, [Base1]), **p(2, {'tag': 'q'})):", "    pass"]
    T["method-defaults-and-deco"] = ["class C:", "    @p(1, staticmethod)", "    def s(a=p(2, 1)):", "        return a", "    z = p(3, s)", "C.s()"]
    # ---- control-flow headers
    T["if-elif"] = ["if p(1, False):", "    p(2, 0)", "elif p(3, True):", "    p(4, 0)", "else:", "    p(5, 0)"]
    T["if-else-taken"] = ["if p(1, 0) or p(2, 0):", "    p(3, 0)", "else:", "    p(4, 0)"]
    T["while-header"] = ["n = [2]", "while p(1, n[0]):", "    n[0] -= 1", "    p(2, 0)", "else:", "    p(3, 0)"]
    T["while-break"] = ["n = [3]", "while p(1, n[0]):", "    n[0] -= 1", "    if p(2, n[0] == 1):", "        break", "else:", "    p(3, 0)"]
    T["for-header"] = ["for x in p(1, [1, 2]):", "    p(2, x)", "else:", "    p(3, 0)"]
    T["for-header-break"] = ["for x in p(1, logiter('I', 3)):", "    if p(2, x == 1):", "        break", "    p(3, x)"]
    T["for-complex-target"] = ["for p(1, box('A')).a, (b, *p(2, box('B'))[p(3, 0)]) in p(4, [(1, (2, 3)), (4, (5, 6))]):", "    p(5, b)"]
    T["return-value"] = ["def f():", "    return p(1, 1), p(2, 2)", "p(3, f)()"]
    T["return-in-loop"] = ["def f():", "    for i in p(1, [1, 2]):", "        if p(2, i == 2):", "            return p(3, i)", "f()"]
    # ---- expressions
    T["call-mixed"] = ["p(1, fn)(p(2, 1), *p(3, [2]), p(4, 3), k=p(5, 4), **p(6, {'z': 1}), m=p(7, 5))"]
    T["call-method-chain"] = ["p(1, box('A')).m(p(2, 1)).n(p(3, 2))"]
    T["compare-chain"] = ["p(1, 1) < p(2, 2) < p(3, 3) < p(4, 0) < p(5, 9)"]
    T["compare-chain-all"] = ["r = p(1, 1) < p(2, 2) <= p(3, 2) != p(4, 0)"]
    T["bool-ops"] = ["p(1, 0) or p(2, 1) and p(3, 0) or p(4, 2)", "p(5, 1) and (p(6, 0) or p(7, 0)) and p(8, 1)"]
    T["ifexp"] = ["p(1, 'a') if p(2, 0) else p(3, 'b') if p(4, 1) else p(5, 'c')"]
    T["displays"] = ["[p(1, 1), *p(2, [2]), p(3, 3)]", "{p(4, 'k'): p(5, 1), **p(6, {}), p(7, 'j'): p(8, 2)}", "{p(9, 1), p(10, 2)}", "(p(11, 1), p(12, 2))"]
    T["subscript-load"] = ["p(1, box('A'))[p(2, 0):p(3, 1):p(4, 2)]", "p(5, box('B'))[p(6, 0), p(7, 1):p(8, 2)]", "p(9, box('C')).a.b"]
    T["binop-order"] = ["p(1, 2) ** p(2, 3) ** p(3, 1)", "p(4, 1) - p(5, 2) - p(6, 3)", "-p(7, 1) + ~p(8, 2)"]
    T["fstring"] = ["f\"{p(1, 1)!r:>{p(2, 5)}} {p(3, 'a')} {p(4, 2):{p(5, 3)}.{p(6, 1)}f}\""]
    T["comprehension"] = ["[p(3, i) for i in p(1, [1, 2]) if p(2, i)]", "{p(6, k): p(7, k) for k in p(4, [1]) for j in p(5, [2])}"]
    T["genexp-lazy"] = ["g = (p(2, i) for i in p(1, [1, 2]))", "p(3, 0)", "list(g)"]
    T["walrus"] = ["(w := p(1, 1)) + p(2, w)", "[y := p(3, 1), p(4, y)]"]
    T["lambda-body"] = ["f = lambda a: p(1, a) + p(2, 1)", "p(3, f)(p(4, 1))"]
    T["starred-call-kw-order"] = ["fn(*p(1, [1]), k=p(2, 1), *p(3, [2]))"]
    T["attribute-of-call"] = ["p(1, fn)(p(2, 1)).real", "p(3, box('A')).x = p(4, fn)(p(5, 2))"]
    T["import-as-expr-order"] = ["x = [p(1, 1), p(2, 2)][p(3, 0)]"]
    T["global-store"] = ["def f():", "    global gx", "    gx = p(1, 1)", "    gx += p(2, 2)", "f()"]
    T["nonlocal-store"] = ["def f():", "    nx = p(1, V(1))", "    def g():", "        nonlocal nx", "        nx += p(2, V(2))", "        nx = p(3, nx)", "    g()", "    return p(4, nx)", "f()"]
    T["closure-default"] = ["def f(c):", "    def g(a=p(1, c), *, k=p(2, c)):", "        return p(3, a)", "    return g", "f(p(4, 1))()"]
    return T


def literalised(lines):
    """Variants of a template in which exactly one probe `p(k, value)` is replaced by its bare value: lowerings that
    special-case literal / side-effect-free sub-expressions (skipped temporaries, re-emitted indices) show up as a
    missing, duplicated or reordered *other* probe. Yields (suffix, lines)."""
    import ast
    import copy
    src = "\n".join(lines) + "\n"
    try:
        tree = ast.parse(src)
    except SyntaxError:
        return
    probes = [n for n in ast.walk(tree) if isinstance(n, ast.Call) and isinstance(n.func, ast.Name) and n.func.id == "p"
              and len(n.args) == 2 and isinstance(n.args[0], ast.Constant)]
    if len(probes) < 2:
        return
    for target in probes:
        k = target.args[0].value

        class R(ast.NodeTransformer):
            def visit_Call(self, node):
                self.generic_visit(node)
                if isinstance(node.func, ast.Name) and node.func.id == "p" and len(node.args) == 2 \
                        and isinstance(node.args[0], ast.Constant) and node.args[0].value == k:
                    return node.args[1]
                return node
        t2 = R().visit(copy.deepcopy(tree))
        try:
            out = ast.unparse(ast.fix_missing_locations(t2))
        except Exception:
            continue
        yield "~lit%s" % k, out.splitlines()


PLACES = ["module", "function", "class", "method", "loop"]


def place(lines, where):
    if where == "module":
        L = lines
    elif where == "function":
        L = ["def __host():"] + ["    " + l for l in lines] + ["__host()"]
    elif where == "class":
        L = ["class __Host:"] + ["    " + l for l in lines]
    elif where == "method":
        L = ["class __Host:", "    def __init__(self):"] + ["        " + l for l in lines] + ["__Host()"]
    elif where == "loop":
        L = ["for __i in range(2):"] + ["    " + l for l in lines]
    return "\n".join(L) + "\n"


def mkenv():
    log = []

    def p(k, v):
        log.append(("p", k))
        return v

    class V:
        def __init__(s, v):
            s.v = v

        def __repr__(s):
            return "V(%r)" % (s.v,)
    for n in OPN:
        def mk(n):
            def iop(s, o):
                log.append(("iop", n, repr(s), repr(o)))
                s.v = (n, s.v, getattr(o, "v", o))
                return s

            def bop(s, o):
                log.append(("bop", n, repr(s), repr(o)))
                return V((n, s.v, getattr(o, "v", o)))
            return iop, bop
        iop, bop = mk(n)
        setattr(V, "__i%s__" % n, iop)
        setattr(V, "__%s__" % n, bop)

    class Box:
        def __init__(s, name):
            object.__setattr__(s, "_n", name)
            object.__setattr__(s, "_d", {})

        def __repr__(s):
            return "Box(%s)" % s._n

        def __getitem__(s, k):
            log.append(("getitem", s._n, repr(k)))
            return s._d.setdefault(("i", repr(k)), Box(s._n + "[%r]" % (k,)) if not isinstance(k, slice) and not (isinstance(k, tuple)) else V(0))

        def __setitem__(s, k, v):
            log.append(("setitem", s._n, repr(k), repr(v)))
            s._d[("i", repr(k))] = v

        def __getattr__(s, a):
            if a.startswith("__"):
                raise AttributeError(a)
            log.append(("getattr", s._n, a))
            if a in ("m", "n"):
                return lambda *x: (log.append(("call", s._n, a, repr(x))), s)[1]
            return s._d.setdefault(("a", a), Box(s._n + "." + a))

        def __setattr__(s, a, v):
            log.append(("setattr", s._n, a, repr(v)))
            s._d[("a", a)] = v
    for n in OPN:
        def mk2(n):
            def iop(s, o):
                log.append(("iop", n, repr(s), repr(o)))
                return s
            return iop
        setattr(Box, "__i%s__" % n, mk2(n))

    boxes = {}

    def box(name):
        if name not in boxes:
            boxes[name] = Box(name)
        return boxes[name]

    class LogIter:
        def __init__(s, name, n):
            s.name, s.n, s.i = name, n, 0

        def __iter__(s):
            # not logged: CPython's star-unpacking calls iter() on the iterator a second time (list extend);
            # how often __iter__ of an *iterator* runs is not a subexpression evaluation of the source
            return s

        def __next__(s):
            s.i += 1
            if s.i > s.n:
                log.append(("stop", s.name))
                raise StopIteration
            log.append(("next", s.name, s.i))
            return s.i

    def logiter(name, n):
        return LogIter(name, n)

    def deco(tag):
        def apply(obj):
            # the decorated object's __name__ is metadata (excluded by the properties): only its kind is logged
            log.append(("apply", tag, "class" if isinstance(obj, type) else "callable"))
            return obj
        return apply

    def decofactory(tag):
        log.append(("factory", tag))
        return deco(tag)

    def fn(*a, **k):
        log.append(("fn", repr(a), repr(sorted(k.items()))))
        return 7

    class Meta(type):
        def __new__(m, name, bases, ns, **kw):
            log.append(("meta-new", name, [b.__name__ for b in bases], sorted(k for k in ns if not k.startswith("__")), sorted(kw)))
            return super().__new__(m, name, bases, ns)

        def __init__(c, name, bases, ns, **kw):
            super().__init__(name, bases, ns)

    class Base1:
        def __init_subclass__(cls, tag=None, **kw):
            log.append(("init-subclass", cls.__name__, tag))
            super().__init_subclass__(**kw)

    class Base2:
        pass
    def ident(o):
        log.append(("ident", repr(o)))
        return o
    ns = dict(ident=ident, p=p, V=V, box=box, logiter=logiter, deco=deco, decofactory=decofactory, fn=fn, Meta=Meta,
              Base1=Base1, Base2=Base2, __name__="__main__")
    return ns, log


def run_case(rec, tname, lines, where, cfg):
    src = place(lines, where)
    o, to = rt.guarded(lambda: observe.differential(src, cfg, mkenv, globals_cmp=False, keep=True))
    if to:
        rec.inconc("case-timeout")
        return
    if o.ood:
        rec.inconc(o.status)
        rec.note("out-of-domain templates", "%s@%s:%s" % (tname, where, o.status))
        return
    case = {"template": tname, "place": where, "cfg": list(cfg), "src": src}
    if o.ok:
        nprobes = sum(1 for e in o.log1 if e[0] == "p")
        rec.ok((tname, where, cfg), nontrivial=nprobes >= 2)
        rec.count("probe-events-compared", len(o.log1))
        if len(rec.samples) < 2 and tname in ("aug-sub-add", "class-header", "assign-starred-complex") and where == "function":
            rec.sample({"template": tname, "place": where, "options": cfg, "source": src, "events": [list(map(str, e)) for e in o.log1[:14]]})
        return
    cell = "%s@%s" % (tname, where)
    for kf in findings.for_prop(ID):
        if cell in kf.get("cells", []) or tname in kf.get("templates", []):
            if any(o.status.startswith(s) for s in kf.get("symptoms", [])):
                rec.known_finding(kf["id"])
                return
    rec.violation(o.status, case, o.detail)


def all_templates():
    T = templates()
    out = dict(T)
    for tname, lines in T.items():
        for suffix, l2 in literalised(lines):
            out[tname + suffix] = l2
    return out


def run_shard(rec):
    T = all_templates()
    rec.count("templates-with-literalised-variants", 0)
    idx = 0
    for tname, lines in T.items():
        derived = "~lit" in tname
        for where in PLACES:
            for ci, cfg in enumerate(envs.CFGS):
                idx += 1
                if idx % rec.nshards != rec.shard:
                    continue
                run_case(rec, tname, lines, where, cfg)


def replay(case, rec):
    T = all_templates()
    run_case(rec, case["template"], T[case["template"]], case["place"], tuple(case["cfg"]))


def run_witness(kf):
    T = all_templates()
    w = kf["witness"]
    src = place(T[w["template"]], w.get("place", "module"))
    o = observe.differential(src, tuple(w.get("cfg", envs.DEFAULT_CFG)), mkenv, globals_cmp=False)
    if not o.ok and not o.ood:
        return True, "%s [template %s -> %s]" % (kf["mechanism"], w["template"], o.status)
    return False, "witness passes"
