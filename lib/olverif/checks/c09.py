"""C09 - helper names never capture or clobber user identifiers.

(a) M2 on a finite matrix (risky identifier x role x converter feature x options) and on alpha-renamed
    random programs (metamorphic: the renamed original is its own reference);
(b) M1: a recording wrapper around the real fresh-name function, scoped to one convert_code_string call,
    asserts that the temporaries of one conversion are pairwise distinct and disjoint from the source's
    identifiers, under random, fixed and repeatedly re-seeded states of `random`.
"""
import ast
import itertools
import random

from .. import envs, observe, rt, findings, contracts
from ..gen import progs

ID = "C09"
LEVEL = "exploration"
TECHNIQUE = "runtime differential monitor over an identifier x role x feature matrix + alpha-renaming metamorphic runs + contract on fresh-name issuance"
RULE = ("exhaustive matrix: identifiers {_, __, k, v, self, it, itertools, importlib, type, setattr, hasattr, iter, next, "
        "tuple, list, slice, globals, locals, __import__, classmethod, __class__, operator, cls, mcs, result, tmp} x roles "
        "{global, local, parameter, loop target, function name, class name, class attribute, import alias, comprehension "
        "target, nonlocal} x features {while, while whose test uses the name, for+break, for+else, class, class using "
        "the name in its body, import, dotted import, from-import, destructuring, starred destructuring, augmented "
        "name / attribute / subscript, slice store, global store, nonlocal store, zero-arg super, method call, lambda, "
        "return in loop} x 8 option combinations; plus seeded generated programs alpha-renamed with an injective map "
        "into the risky set; plus every conversion's temporaries checked for distinctness/disjointness under fixed and "
        "re-seeded `random` states. Distinct by (identifier, role, feature, options); non-trivial: all in-domain cells."
        ' Identifiers include super, builtins, getattr, dict, operator; feature super0-object observes the object a zero-argument super() call gives.')
ASSUMPTIONS = ["a cell whose *original* raises (e.g. the user shadows a builtin that the snippet itself calls) is out of domain",
               "if a refactoring removes the fresh-name function, part (b) is reported as not observed; part (a) still decides"]
EXHAUSTIVE = {"quick": True, "thorough": True}
FLOOR = {"quick": 20000, "thorough": 20000}

IDENTS = ["_", "__", "k", "v", "self", "it", "itertools", "importlib", "type", "setattr", "hasattr", "iter", "next",
          "tuple", "list", "slice", "globals", "locals", "__import__", "classmethod", "__class__", "operator", "cls", "mcs",
          "result", "tmp", "builtins", "getattr", "dict", "super"]
ROLES = ["global", "local", "param", "looptarget", "funcname", "classname", "classattr", "importalias", "comptarget", "nonlocal",
         "comptarget-enclosing", "global-declared-under-local"]

# feature snippets: lines using only neutral names (q0..q9, Q*, zz*) and literals; they print their own result
FEATURES = {
    "while": ["q0 = 0", "while q0 < 2:", "    q0 += 1", "print('while', q0)"],
    "while-else-break": ["q0 = 0", "while q0 < 5:", "    q0 += 1", "    if q0 == 3:", "        break", "else:", "    print('no')", "print('wb', q0)"],
    "for-break": ["for q1 in [1, 2, 3]:", "    if q1 == 2:", "        break", "print('fb', q1)"],
    "for-else": ["for q1 in (5, 6):", "    pass", "else:", "    print('fe', q1)"],
    "class": ["class Q2:", "    a = 1", "    def m(s2):", "        return s2.a + 1", "print('class', Q2().m(), Q2.a)"],
    "class-bases-meta": ["class QM(type):", "    pass", "class Q3(dict, metaclass=QM):", "    b = 2", "print('cbm', type(Q3).__name__, Q3.b, Q3.__mro__[1].__name__)"],
    "class-init-subclass": ["class Q4:", "    def __init_subclass__(c4, **kw):", "        c4.seen = sorted(kw)", "class Q5(Q4, tag=1):", "    pass", "print('cis', Q5.seen)"],
    "super0": ["class Q6:", "    def m(s6):", "        return 'base'", "class Q7(Q6):", "    def m(s7):", "        return 'sub+' + super().m()", "print('super', Q7().m())"],
    # the *object* a zero-argument super() call gives, in and outside a loop: with a user-defined `super` it is the user's call
    "super0-object": ["class Q6b:", "    def m(s6):", "        for _ in range(1):", "            r = type(super()).__name__", "        return r, type(super()).__name__",
                      "    @classmethod", "    def c(c6):", "        return type(super()).__name__", "print('super-obj', Q6b().m(), Q6b.c())"],
    "import": ["import math", "print('imp', math.floor(2.5))"],
    "import-dotted": ["import os.path", "print('impd', os.path.basename('a/b'))"],
    "import-as": ["import json as q8", "print('impa', q8.dumps([1]))"],
    "from-import": ["from math import floor, ceil as q9", "print('fi', floor(2.5), q9(2.5))"],
    "destructure": ["qa, qb = 1, 2", "print('de', qa, qb)"],
    "destructure-star": ["qa, *qb, qc = [1, 2, 3, 4]", "(qd, qe), qf = (5, 6), 7", "print('ds', qa, qb, qc, qd, qe, qf)"],
    "aug-name": ["qg = 1", "qg += 2", "qh = [1]", "qh += [2]", "print('an', qg, qh)"],
    "aug-subscript": ["qi = [1, 2]", "qi[0] += 5", "qi[1:] += [9]", "print('as', qi)"],
    "aug-attr": ["class Q8:", "    pass", "qj = Q8()", "qj.a = 1", "qj.a += 1", "print('aa', qj.a)"],
    "slice-store": ["qk = [1, 2, 3]", "qk[1:2] = [7, 8]", "qk[::2] = [0, 0]", "print('ss', qk)"],
    "global-store": ["def qf1():", "    global qg1", "    qg1 = 5", "    qg1 += 1", "qf1()", "print('gs', qg1)"],
    "nonlocal-store": ["def qf2():", "    qn = 1", "    def qf3():", "        nonlocal qn", "        qn += 1", "    qf3()", "    return qn", "print('ns', qf2())"],
    "lambda-and-comp": ["ql = lambda qa1, qa2=2: [qa1 + qa3 for qa3 in range(qa2)]", "print('lc', ql(1))"],
    "return-in-loop": ["def qf4():", "    for qx in range(5):", "        while True:", "            if qx == 2:", "                return qx", "            break", "print('ril', qf4())"],
    "chained-assign": ["qm = qn2 = [1]", "print('ca', qm is qn2)"],
    "chained-destructure": ["(qa, qb) = qrow = [1, 2]", "qh, *qt = qline = 'abc'", "print('cd', type(qrow).__name__, qrow, type(qline).__name__, qa, qb, qh, qt)"],
    "nested-destructure-order": ["(qa, qb), qc = (1, 2), 3", "for (qd, qe), qf in [((4, 5), 6)]:", "    pass", "print('ndo', qa, qb, qc, qd, qe, qf)"],
    "if-elif": ["qo = 2", "if qo == 1:", "    print('one')", "elif qo == 2:", "    print('two')", "else:", "    print('other')"],
    "fstring": ["qp = 3", "print(f'{qp!r:>{qp}}')"],
    "walrus": ["print((qq := 4) + qq)"],
    # features whose helper-introducing construct itself *reads the identifier* ({I})
    "while-test-uses": ["q0 = 0", "qsave = {I}", "while q0 < 2 and {I} is qsave:", "    q0 += 1", "print('wtu', q0)"],
    "while-else-test-uses": ["q0 = 0", "qsave = {I}", "while {I} is qsave and q0 < 4:", "    q0 += 1", "    if q0 == 2:", "        continue", "    if q0 == 3:", "        break", "else:", "    print('no')", "print('wetu', q0)"],
    "for-iter-uses": ["for q1 in [{I}, {I}]:", "    if q1 is not {I}:", "        break", "else:", "    print('fiu ok')"],
    "for-break-body-uses": ["qsave = {I}", "for q1 in range(3):", "    if {I} is qsave and q1 == 1:", "        break", "print('fbu', q1)"],
    "class-body-uses": ["class Q2:", "    a = {I}", "    b = [a, {I}]", "print('cbu', Q2.a is {I}, Q2.b[1] is {I})"],
    "lambda-default-uses": ["ql = lambda qa=({I}), *qr, qk=({I}): (qa, qk)", "print('ldu', ql()[0] is {I}, ql()[1] is {I})"],
    "def-default-and-deco-uses": ["def qdec(fn):", "    return fn", "@qdec", "def qf5(qa=({I}), *, qk=[{I}]):", "    return qa, qk", "print('ddu', qf5()[0] is {I}, qf5()[1][0] is {I})"],
    "comp-uses": ["print('cu', [q is {I} for q in [{I}]], all({I} is q for q in ({I},)), {0: {I}}[0] is {I})"],
    "aug-uses": ["qh = []", "qh += [{I}]", "qh[0:0] += [{I}]", "print('au', qh[0] is {I}, qh[1] is {I})"],
    "destructure-uses": ["qa, (qb, *qc) = {I}, [{I}, {I}]", "print('du', qa is {I}, qb is {I}, qc[0] is {I})"],
    "subscript-store-uses": ["qd = {}", "qd[0] = {I}", "qd[0] = [qd[0], {I}]", "print('ssu', qd[0][0] is {I}, qd[0][1] is {I})"],
    "return-in-loop-uses": ["qsave = {I}", "def qf4():", "    for qx in range(3):", "        while {I} is qsave:", "            return {I}", "        return None", "print('rlu', qf4() is {I})"],
    "if-test-uses": ["qsave = {I}", "if {I} is not qsave:", "    print('changed')", "elif {I} is qsave:", "    print('itu ok')"],
    "global-store-uses": ["def qf1():", "    global qg1", "    qg1 = {I}", "qf1()", "print('gsu', qg1 is {I})"],
    "walrus-uses": ["print('wu', (qq := {I}) is {I}, qq is {I})"],
    "call-args-uses": ["def qf6(*qa, **qk):", "    return qa, qk", "print('cau', qf6({I}, *[{I}], q={I}, **{'r': {I}})[0][1] is {I})"],
}


def _ind(lines, n=1):
    return ["    " * n + l for l in lines]


def cell_program(ident, role, feat):
    """Bind `ident` in `role` to a recognisable value, run the feature snippet in the same scope, observe the binding."""
    F = [l.replace("{I}", ident) for l in FEATURES[feat]]
    I = ident
    if role == "global":
        return [I + " = 'USER'"] + F + ["print('obs', " + I + ")"]
    if role == "local":
        return ["def host():", "    " + I + " = 'USER'"] + _ind(F) + ["    print('obs', " + I + ")", "host()"]
    if role == "param":
        return ["def host(" + I + "):"] + _ind(F) + ["    print('obs', " + I + ")", "host('USER')"]
    if role == "looptarget":
        return ["for " + I + " in ['USER']:"] + _ind(F) + ["    print('obs', " + I + ")", "print('after', " + I + ")"]
    if role == "funcname":
        return ["def " + I + "():", "    return 'USER'"] + F + ["print('obs', " + I + "())"]
    if role == "classname":
        return ["class " + I + ":", "    tag = 'USER'"] + F + ["print('obs', " + I + ".tag)"]
    if role == "classattr":
        return ["class Host:", "    " + I + " = 'USER'"] + _ind(F) + ["    print('obs', " + I + ")", "print('attr', getattr(Host, '" + I + "'))"]
    if role == "importalias":
        return ["import string as " + I] + F + ["print('obs', " + I + ".digits)"]
    if role == "comptarget":
        return F + ["print('obs', [" + I + " for " + I + " in ['USER']], [(lambda: " + I + ")() for " + I + " in 'ab'])"]
    if role == "nonlocal":
        return ["def host():", "    " + I + " = 'USER'", "    def inner():", "        nonlocal " + I, "        " + I + " = " + I + " + '!'"] + _ind(F, 2) + \
               ["        return " + I, "    print('obs', inner(), " + I + ")", "host()"]
    import builtins
    isb = hasattr(builtins, I)
    if role == "comptarget-enclosing":
        # the comprehension variable of the enclosing function must not capture the inner function's global / builtin
        return ([] if isb else [I + " = 'GLOBAL'"]) + ["def host():", "    qr = [" + I + " for " + I + " in ['USER']]", "    def inner():", "        return " + I] + _ind(F) + \
               ["    return qr, inner()", "print('obs', host()[0], repr(host()[1])[:24])"]
    if role == "global-declared-under-local":
        return ([] if isb else [I + " = 'GLOBAL'"]) + ["def host():", "    def inner():", "        global " + I, "        return " + I] + _ind(F) + \
               ["    " + I + " = 'USER'", "    return " + I + ", inner()", "print('obs', host()[0], repr(host()[1])[:24])"]
    raise ValueError(role)


# which builtin spellings the generated code itself calls for a feature (the recorded finding KF-class-cell-spelling)
HELPER_TABLE = {
    '__class__': ["class-body-uses"],
}


# (identifier, role) pairs of the same finding that fail whatever the feature: the shadowed-global load itself is spelled
# with the builtins globals() and __import__('builtins')
HELPER_ROLE_TABLE = {}


def mkenv():
    return {"__name__": "__main__"}, []


def judge_cell(rec, ident, role, feat, cfg):
    src = "\n".join(cell_program(ident, role, feat)) + "\n"
    o, to = rt.guarded(lambda: observe.differential(src, cfg, mkenv, globals_cmp=True), 20)
    if to:
        rec.inconc("case-timeout")
        return
    if o.ood:
        rec.inconc("original-" + o.status.split(":")[1])
        return
    case = {"ident": ident, "role": role, "feature": feat, "cfg": list(cfg), "src": src}
    if o.ok:
        rec.ok((ident, role, feat, cfg))
        rec.note("identifiers held", ident)
        return
    # known: the user binds the spelling of a builtin that the feature's generated code calls
    kf = findings.by_id("KF-class-cell-spelling")
    if kf and ID in kf["properties"] and (feat in HELPER_TABLE.get(ident, ()) or role in HELPER_ROLE_TABLE.get(ident, ())):
        # counterfactual re-check: with the identifier renamed to a neutral one the cell must pass
        src2 = "\n".join(cell_program("zz_neutral", role, feat)) + "\n"
        o2 = observe.differential(src2, cfg, mkenv, globals_cmp=True)
        if o2.ok and any(o.status.startswith(s) for s in kf["symptoms"]):
            rec.known_finding(kf["id"])
            rec.note("known cells", "%s/%s" % (ident, feat))
            return
    trig = findings.triggered(ID, src=src, cfg=cfg)
    kid = findings.attribute([k for k in trig if k["id"] != "KF-class-cell-spelling"], o.status)
    if kid:
        rec.known_finding(kid)
        return
    why = observe.interpreter_defect_312(o, src)
    if why:
        rec.inconc(why)
        return
    rec.violation(o.status, case, o.detail)


# ---------------------------------------------------------------- alpha renaming

class _Rename(ast.NodeTransformer):
    def __init__(self, m):
        self.m = m

    def visit_Name(self, n):
        n.id = self.m.get(n.id, n.id)
        return n

    def visit_arg(self, n):
        n.arg = self.m.get(n.arg, n.arg)
        return n

    def visit_FunctionDef(self, n):
        n.name = self.m.get(n.name, n.name)
        self.generic_visit(n)
        return n

    def visit_ClassDef(self, n):
        n.name = self.m.get(n.name, n.name)
        self.generic_visit(n)
        return n

    def visit_Global(self, n):
        n.names = [self.m.get(x, x) for x in n.names]
        return n

    visit_Nonlocal = visit_Global

    def visit_alias(self, n):
        if n.asname:
            n.asname = self.m.get(n.asname, n.asname)
        return n

    def visit_keyword(self, n):
        if n.arg:
            n.arg = self.m.get(n.arg, n.arg)
        self.generic_visit(n)
        return n


SAFE_RISKY = ["_", "__", "k", "v", "it", "itertools", "importlib", "operator", "cls", "mcs", "result", "tmp", "_1", "__ol", "ol_", "_ol_x"]


def alpha_rename(src, rng, pool):
    """Rename user-bound identifiers (never attributes, builtins or imported module names used unaliased)."""
    tree = ast.parse(src)
    bound = set()
    attrs = set()
    keep = set()
    for n in ast.walk(tree):
        if isinstance(n, ast.Name) and isinstance(n.ctx, ast.Store):
            bound.add(n.id)
        elif isinstance(n, ast.arg):
            bound.add(n.arg)
        elif isinstance(n, (ast.FunctionDef, ast.ClassDef)):
            bound.add(n.name)
        elif isinstance(n, ast.alias):
            if n.asname:
                bound.add(n.asname)
            else:
                keep.add(n.name.split(".")[0])
        elif isinstance(n, ast.Attribute):
            attrs.add(n.attr)
    for n in ast.walk(tree):
        if isinstance(n, ast.ClassDef):
            # names bound in a class body are attributes elsewhere: keep their spelling
            for s in ast.walk(n):
                if isinstance(s, ast.Name) and isinstance(s.ctx, ast.Store):
                    keep.add(s.id)
                if isinstance(s, (ast.FunctionDef, ast.ClassDef)) and s is not n:
                    keep.add(s.name)
                if isinstance(s, ast.arg) and s.arg in ("self", "cls"):
                    keep.add(s.arg)
        if isinstance(n, ast.keyword) and n.arg:
            pass
    cands = sorted(b for b in bound if b not in keep and b not in attrs and not b.startswith("__"))
    rng.shuffle(cands)
    targets = [t for t in pool if t not in bound and t not in keep]
    rng.shuffle(targets)
    m = dict(zip(cands, targets))
    if not m:
        return None, {}
    new = _Rename(m).visit(tree)
    return ast.unparse(ast.fix_missing_locations(new)) + "\n", m


def run_shard(rec):
    idx = 0
    # (a) the matrix
    for ident, role, feat in itertools.product(IDENTS, ROLES, FEATURES):
        if ident == "__class__" and role == "classattr":
            # the *reference interpreter* (CPython 3.12.1) segfaults on a class body that binds __class__ and reads it
            # in a comprehension: out of domain, the cell is not generated
            rec.count("excluded: reference interpreter crashes on the original")
            continue
        idx += 1
        if idx % rec.nshards != rec.shard:
            continue
        if rec.tier == "quick":
            k = (idx // rec.nshards + rec.seed) % 8
            cfgs = [envs.CFGS[k], envs.CFGS[(k + 3) % 8], envs.CFGS[(k + 5) % 8]]
        else:
            cfgs = envs.CFGS
        for cfg in cfgs:
            judge_cell(rec, ident, role, feat, cfg)
        if len(rec.samples) < 1 and ident == "k" and role == "classattr" and feat == "class":
            rec.sample({"cell": [ident, role, feat], "source": "\n".join(cell_program(ident, role, feat))})
    # (c) alpha-renamed generated programs
    n = 1500 if rec.tier == "quick" else 20000
    rng = random.Random(rec.seed * 48271 + 11)
    for i in range(n):
        seed = rec.seed * 1000003 + 700000 + i
        r2 = random.Random(seed)
        if i % rec.nshards != rec.shard:
            continue
        src, feats = progs.generate(seed)
        try:
            ren, m = alpha_rename(src, r2, SAFE_RISKY)
        except (SyntaxError, RecursionError):
            continue
        if not ren:
            continue
        cfg = envs.CFGS[i % 8]
        trig = findings.triggered(ID, src=ren, cfg=cfg)
        o, to = rt.guarded(lambda: observe.differential(ren, cfg), 20)
        if to:
            rec.inconc("case-timeout")
            continue
        if o.ood:
            rec.inconc("renamed-original-" + o.status.split(":")[1])
            continue
        if o.ok:
            rec.ok(("ren", seed, cfg))
            rec.count("alpha-renamed-held")
            if len(rec.samples) < 2 and i % 97 == 0:
                rec.sample({"alpha_renamed_program": seed, "mapping": m, "options": cfg})
            continue
        kid = findings.attribute(trig, o.status)
        if kid:
            rec.known_finding(kid)
            continue
        # counterfactual: does the un-renamed program pass? then the renaming is the cause
        o0 = observe.differential(src, cfg)
        rec.violation(("renaming:" if o0.ok else "") + o.status, {"src": ren, "cfg": list(cfg), "mapping": m, "seed": seed}, o.detail)
    # (b) fresh temporaries under fixed / re-seeded random states (the contract judges every conversion)
    ol = rt.load_oneliner()
    before = contracts.MON.evals.get("C09.fresh-temporaries", 0)
    srcs = ["\n".join(cell_program("k", "global", f)) + "\n" for f in FEATURES]
    big = "\n".join("\n".join(FEATURES[f]) for f in FEATURES) + "\n"
    for rep in range(40 if rec.tier == "quick" else 400):
        if rep % rec.nshards != rec.shard:
            continue
        for mode in ("fixed", "same-again", "fresh"):
            if mode in ("fixed", "same-again"):
                random.seed(12345)
            else:
                random.seed()
            for s in srcs + [big, big * 3]:
                contracts.MON.drain()
                try:
                    ol.convert_code_string(s, "<s>", rt.mkcfg(envs.CFGS[rep % 8]))
                except Exception:
                    continue
                ev = contracts.MON.drain("C09")
                if ev:
                    rec.violation("temporaries:" + ev[0]["detail"], {"src": s, "cfg": list(envs.CFGS[rep % 8]), "random": mode}, ev[0]["input"].get("names"))
                else:
                    rec.ok(("tmp", rep, mode, rt.h8(s)), nontrivial=True)
                    rec.count("conversions-with-temporaries-checked")
    random.seed()
    rec.count("C09b-contract-evaluations", contracts.MON.evals.get("C09.fresh-temporaries", 0) - before)


def replay(case, rec):
    if "ident" in case:
        judge_cell(rec, case["ident"], case["role"], case["feature"], tuple(case["cfg"]))
    else:
        o = observe.differential(case["src"], tuple(case["cfg"]))
        if o.ok or o.ood:
            rec.ok(case)
        else:
            rec.violation(o.status, case, o.detail)


def run_witness(kf):
    w = kf["witness"]
    for cfg in envs.CFGS[:2]:
        o = observe.differential(w["source"], cfg)
        if not o.ok and not o.ood:
            return True, "%s [witness -> %s]" % (kf["mechanism"], o.status)
    return False, "witness passes"
