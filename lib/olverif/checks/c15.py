"""C15 - the generated expression runs identically on every Python 3.8+ runtime.

M2 across processes: a host process (3.10-3.13, the converter) writes (program, options, output)
records; a small 3.8-compatible runner executes original and output in fresh namespaces under each
runtime binary (3.8-3.13); records are deduplicated by name-normalised output text.
"""
import ast
import glob
import json
import os
import shutil
import subprocess
import sys
import tempfile

from .. import envs, rt, findings, observe
from ..gen import progs
from . import c10

ID = "C15"
LEVEL = "exploration"
TECHNIQUE = "runtime differential monitor across interpreter processes: host-converted text executed by real 3.8-3.13 binaries"
RULE = ("seeded generated supported-fragment programs restricted to 3.8 syntax (biased to version-sensitive shapes: walrus "
        "in call arguments / subscripts / comprehensions, star expressions in displays / returns / subscripts-as-tuples, "
        "nested f-strings with quotes, positional-only parameters, dict/set displays with stars, lambda defaults, "
        "parenthesis-sensitive forms) + targeted shapes + a hash-selected slice of C12's class-statement catalogue (every "
        "member kind, headers, placements) + the repository's scripts x 8 option combinations x host "
        "interpreter {3.10, 3.12} + a targeted/class/scripts slice on {3.11, 3.13} (thorough: 3.10-3.13 in full) x runtime interpreter {3.8, 3.9, 3.11, 3.13} (thorough: 3.8-3.13). "
        "A record is distinct by (host, normalised output text); non-trivial iff the original runs on that runtime "
        "and prints something.")
ASSUMPTIONS = ["programs whose original fails on a runtime are out of the domain for that runtime",
               "a missing interpreter makes its cells inconclusive, never held"]
EXHAUSTIVE = {"quick": False, "thorough": False}
FLOOR = {"quick": 3000, "thorough": 50000}
MONITORS = False
SIZES = {"quick": dict(n=420, class_mod=6, hosts=["3.10", "3.12"], slice_hosts=["3.11", "3.13"], runtimes=["3.8", "3.9", "3.11", "3.13"]),
         "thorough": dict(n=6000, class_mod=1, hosts=["3.10", "3.11", "3.12", "3.13"], runtimes=["3.8", "3.9", "3.10", "3.11", "3.12", "3.13"])}
RUNNER = os.path.join(envs.LIB, "olverif", "runtime_runner.py")

TARGETED = {
    "fstr-dict-key": "x = 1\nd = {'k': 2}\nprint(f\"{d['k']} {x!r:>4} {x:{x}}\")\n",
    "fstr-nested": "x = 1\nprint(f\"{f'{x}'}\")\n",
    "fstr-join-escape": "l = ['a', 'b']\nprint(f\"{'-'.join(l)}\")\n",
    "fstr-ternary-strings": "x = 0\nprint(f\"{'yes' if x else 'no'}\")\n",
    "walrus-subscript": "a = [1, 2, 3]\nprint(a[(i := 1)])\nprint(i)\n",
    "walrus-call-arg": "def f(a, b):\n    return a + b\nprint(f((q := 2), q))\n",
    "walrus-comprehension": "print([y for x in range(4) if (y := x * 2) > 2])\n",
    "star-call-and-display": "def f(*a):\n    return a\nt = (1, 2)\nprint(f(*t, 3))\nprint((*t, 4), [*t, 5], {*t, 6})\n",
    "posonly": "def f(a, /, b):\n    return a + b\nprint(f(1, b=2))\n",
    "dictcomp": "print({k: v for k, v in [(1, 2)]})\n",
    "return-star": "def f():\n    t = (1, 2)\n    return (0, *t)\nprint(f())\n",
    "subscript-tuple-star": "d = {}\nt = (1, 2)\nd[(*t, 3)] = 1\nprint(d)\n",
    "lambda-default-walrus": "f = lambda x=(y := 2): x + y\nprint(f())\n",
    "genexp-arg": "print(sum(i for i in range(3)))\nprint(list((i for i in range(2))))\n",
    "dict-star-star": "a = {'x': 1}\nprint({**a, 'y': 2, **{'z': 3}})\n",
    "unparenthesized-tuple-return-yieldless": "def f():\n    return 1, 2\nx, y = f()\nprint(x, y)\n",
    "slices-and-ellipsis": "class G:\n    def __getitem__(s, k):\n        return k\ng = G()\nprint(g[1:2, ..., ::3], g[(1, 2)], g[1,])\n",
    "decorated-class-method-chain": "def d(x):\n    return x\nclass A:\n    @staticmethod\n    @d\n    def f(a=1, *, k=2):\n        return a + k\nprint(A.f(), A().f(k=3))\n",
    "nonlocal-closure-loop": "def f():\n    fs = []\n    for i in range(3):\n        def g(i=i):\n            return i\n        fs.append(g)\n    return [h() for h in fs]\nprint(f())\n",
    "while-else-break-return": "def f(n):\n    while n:\n        n -= 1\n        if n == 2:\n            return 'r'\n    else:\n        return 'e'\nprint(f(5), f(1))\n",
    "super-and-init-subclass": "class B:\n    def __init_subclass__(cls, tag=None, **kw):\n        super().__init_subclass__(**kw)\n        cls.tag = tag\nclass C(B, tag=1):\n    def m(self):\n        return super().__class__.__name__\nprint(C.tag, C().m())\n",
    "percent-format-and-bytes": "print('%s-%d' % ('a', 1), b'\\x00\\xff', 1e309, -1e309, 10**20)\n",
    "import-forms": "import os.path, json as j\nfrom math import floor as fl\nprint(os.path.basename('a/b'), j.dumps([1]), fl(2.5))\n",
    "global-in-nested": "g = 1\ndef a():\n    def b():\n        global g\n        g += 1\n    b()\na()\nprint(g)\n",
    "walrus-in-displays": "print({(y := 1), y + 1}, [(z := 2), z], ((w := 3), w), {(k := 'a'): (v := 4)}, k, v)\n",
    "walrus-in-slices-and-tuple-index": "a = list(range(6))\nprint(a[(i := 1):(j := 4)], i, j)\nd = {(1, 2): 'x'}\nprint(d[(p := 1), (q := 2)], p, q)\n",
    "walrus-in-keyword-and-lambda": "def f(a, k=0):\n    return a + k\nprint(f((u := 1), k=(t := 2)), u, t)\ng = lambda: [(r := 5), r + 1]\nprint(g())\n",
    "lambda-in-comprehension-condition": "y = [1, 2, 3]\nprint([x for x in y if (lambda: x > 1)()])\nprint([(lambda q=x: q * 2)() for x in y])\n",
    "star-in-index-and-return": "def f(*a):\n    return (*a, 0)\nt = (1, 2)\nd = {(1, 2, 3): 'v'}\nprint(f(*t), d[(*t, 3)])\nfor x in (*t, 9):\n    print(x)\n",
    "genexp-sole-argument-and-ternary-lambda": "print(sum((i * 2 for i in range(3))), (lambda: 1 if True else 2)(), (lambda: (yield_ := 3))())\n",
    "unary-and-power-and-await-free": "a = 2\nprint(-a ** 2, (-a) ** 2, 2 ** -a, not a == 2, (not a) == 2, a if a else -a)\n",
    # host-sensitive shapes: the converter reads the host's symbol tables, which changed at 3.12 (PEP 709 inlines
    # list/set/dict comprehensions; generator expressions and lambdas keep their own table)
    "host-global-read-only-in-comprehension": "x = 'module'\ndef outer():\n    x = 'outer-local'\n    def mid():\n        global x\n        def inner():\n            return [x for _ in range(1)], list(x for _ in range(1)), {x for _ in range(1)}, {1: x for _ in range(1)}, (lambda: x)()\n        return inner()\n    return mid(), x\nprint(outer())\n",
    "host-global-declared-in-reader": "x = 'module'\ndef outer():\n    x = 'outer-local'\n    def inner():\n        global x\n        return [x for _ in range(1)], [y for y in [x]], x\n    return inner(), x\nprint(outer())\n",
    "host-nonlocal-read-only-in-comprehension": "def outer():\n    v = 1\n    def bump():\n        nonlocal v\n        v += 1\n    def reader():\n        return [v for _ in range(2)], sum(v for _ in range(2)), (lambda: v)(), {v: v for _ in range(1)}\n    bump()\n    return reader()\nprint(outer())\n",
    "host-class-in-function-comprehension": "g = 'global'\ndef mk(p):\n    loc = 'local'\n    class K:\n        a = [loc for _ in range(1)]\n        b = [p for _ in range(1)]\n        c = [g for _ in range(1)]\n        d = list(loc for _ in range(1))\n        e = [q for q in [loc, p, g]]\n        f = (lambda: (loc, p, g))()\n    return K.a, K.b, K.c, K.d, K.e, K.f\nprint(mk('param'))\n",
    "host-module-class-comprehension": "g = 'global'\nclass K:\n    rows = [1, 2]\n    a = [r * 2 for r in rows]\n    b = [g for _ in rows]\n    c = sum(r for r in rows)\n    d = [(r, s) for r in rows for s in [g]]\nprint(K.a, K.b, K.c, K.d)\n",
    "host-nested-comprehension-capture": "def f(n):\n    fs = [lambda i=i: i + n for i in range(3)]\n    gs = [[i * j + n for j in range(2)] for i in range(2)]\n    hs = {k: [n for _ in range(k)] for k in range(2)}\n    return [h() for h in fs], gs, hs\nprint(f(10))\n",
    "host-comprehension-target-shadows-captured": "def f():\n    x = 'captured'\n    def g():\n        return x\n    r = [x for x in 'ab']\n    s = [[x for x in 'c'] for _ in 'd']\n    return r, s, x, g()\nprint(f())\n",
    "host-walrus-in-comprehension-scopes": "def f():\n    t = 0\n    def g():\n        return t\n    r = [(t := t + i) for i in range(3)]\n    return r, t, g()\nprint(f())\nu = [(w := i) for i in range(2)]\nprint(u, w)\n",
    "host-method-super-and-comprehension": "class B:\n    def m(self):\n        return 'B'\nclass C(B):\n    tags = ['x', 'y']\n    def m(self):\n        return [super(C, self).m() + t for t in self.tags], [t for t in C.tags]\nprint(C().m())\n",
    "host-genexp-in-class-and-function": "g = 2\nclass K:\n    n = sum(i * g for i in range(3))\n    def m(self, k=g):\n        return sum(i * k * g for i in range(3))\ndef f(a):\n    return sum(i * a * g for i in range(3)), max((a for _ in range(1)))\nprint(K.n, K().m(), f(3))\n",
    "host-class-nested-comprehension-globals": "g2 = 'global-g2'\nh2 = 'global-h2'\nclass K:\n    rows = [1, 2]\n    a = [[g2 for _ in range(1)] for r in rows]\n    b = [(lambda: h2)() for r in rows]\n    c = [[len(str(r)) for _ in range(1)] for r in rows]\n    d = {r: {abs(r): sorted([r])} for r in rows}\n    e = list((max(q for q in [r, 0]) for r in rows))\nprint(K.a, K.b, K.c, K.d, K.e)\n",
    "host-class-in-function-nested-comprehension": "g3 = 'global-g3'\ndef mk(p):\n    class K:\n        a = [[(p, g3) for _ in range(1)] for r in range(2)]\n        b = [(lambda: (p, g3))() for r in range(1)]\n        c = [[min(r, 1) for _ in range(1)] for r in range(2)]\n    return K.a, K.b, K.c\nprint(mk('param'))\n",
    "super-in-loops-of-methods": "class B:\n    def who(self):\n        return 'B'\n    @classmethod\n    def make(cls):\n        return cls.__name__\nclass C(B):\n    def who(self):\n        out = []\n        for i in range(2):\n            out.append(super().who() + str(i))\n        n = 0\n        while n < 1:\n            n += 1\n            out.append(super().who())\n        return out\n    @classmethod\n    def make(cls):\n        for _ in range(1):\n            r = super().make()\n        return r\nprint(C().who(), C.make())\n",
    "builtin-named-comprehension-variable": "def f():\n    r = [len for len in [1, 2]]\n    def g():\n        return len('ab')\n    return r, g()\nprint(f())\ndef h():\n    def k():\n        global abs\n        return abs(-3)\n    abs = 5\n    return k(), abs\nprint(h())\n",
    "explicit-classmethod-hooks": "class B:\n    @classmethod\n    def __init_subclass__(cls, **kw):\n        super().__init_subclass__(**kw)\n        cls.seen = cls.__name__\n    @classmethod\n    def __class_getitem__(cls, k):\n        return (cls.__name__, k)\nclass C(B):\n    pass\nprint(C.seen, C[1], B['s'])\nclass B2:\n    def __init_subclass__(cls, **kw):\n        cls.seen = cls.__name__\n    def __class_getitem__(cls, k):\n        return (cls.__name__, k)\nclass C2(B2):\n    pass\nprint(C2.seen, C2[1])\n",
    "posonly-receiver-super-in-loops": "class B:\n    def who(self):\n        return 'B'\nclass C(B):\n    def who(self, /):\n        out = []\n        for i in range(2):\n            out.append(super().who() + str(i))\n        return out\n    def two(self, /, x, *, y=1):\n        n = 0\n        while n < 1:\n            n += 1\n            r = (super().who(), x, y)\n        return r\nprint(C().who(), C().two(5, y=6))\n",
    "fstr-spec-nested-field-with-literal": "name, w, r, n = 'ab', 6, True, 7\nprint(f\"{name:{'>' if r else '<'}{w}}|{n:{'0'}{w - 4}d}|{'x':>{w}}|{name!r:{'^'}{w}}|{n:{'+' if n else ''}}\")\nprint(f'{n:{\"0\"}{w}}', f'{name!s:{chr(45)}<{w}}')\n",
    "matrix-mult-and-ops": "class M:\n    def __matmul__(s, o):\n        return 'mm'\n    def __imatmul__(s, o):\n        return 'imm'\nm = M()\nprint(m @ 1)\nm @= 2\nprint(m, 7 // 2, 2 ** -1, ~5, 5 >> 1)\n",
}


def jobs(tier, seed):
    size = SIZES[tier]
    out = []
    for h in size["hosts"]:
        n = 8 if tier == "quick" else 16
        out += [{"host": h, "shard": i, "nshards": n, "args": {}} for i in range(n)]
    for h in size.get("slice_hosts", []):
        # the other hosts convert the targeted programs, the class catalogue slice and the repository's scripts only
        out += [{"host": h, "shard": i, "nshards": 4, "args": {"slice": True}} for i in range(4)]
    return out


def d18_trigger(tree, cfg, host, runtime):
    """KF-fstring-host312-runtime-pre312: host >= 3.12 renders f-strings in a way only >= 3.12 parses."""
    if not (host >= (3, 12) and runtime < (3, 12)):
        return False
    if cfg[0] == "oneliner":
        return findings.fstring_hard(tree)
    # stdlib ast.unparse on >= 3.12 reuses the enclosing quote inside replacement fields
    for n in ast.walk(tree):
        if isinstance(n, ast.JoinedStr):
            for fv in ast.walk(n):
                if isinstance(fv, ast.FormattedValue):
                    for c in ast.walk(fv.value):
                        if isinstance(c, ast.JoinedStr) or (isinstance(c, ast.Constant) and isinstance(c.value, (str, bytes))):
                            return True
    return False


def star_subscript_trigger(tree, cfg, host, runtime):
    """KF-host-unparse-star-subscript: ast.unparse of a host >= 3.11 writes `d[*t, 3]` (PEP 646 syntax)."""
    if not (host >= (3, 11) and runtime < (3, 11) and cfg[0] == "ast.unparse"):
        return False
    for n in ast.walk(tree):
        if isinstance(n, ast.Subscript) and isinstance(n.slice, ast.Tuple) and any(isinstance(e, ast.Starred) for e in n.slice.elts):
            return True
    return False


# member kinds whose lowering depends on what the *host's* symbol tables say: always in the slice (under one plain header)
ALWAYS_MEMBERS = {"private", "super0", "super0_in_loops", "super0_posonly", "super0_in_headers", "super_nested", "classcell", "initsub_classmethod",
                  "classgetitem_decorated", "comp", "lambda", "read_before_bind"}


def class_catalogue(rec, size):
    """A hash-selected slice of C12's class-statement catalogue (its observation helper goes along as a prelude)."""
    from . import c12
    skip = {"super2"}
    for (hdr, members, pl) in c12.cells("quick"):
        if len(members) > 1 or pl not in ("module", "func", "loop", "inmethod") or (members and members[0] in skip):
            continue
        if hdr[3] not in (0, 1) and members:
            continue
        always = members and members[0] in ALWAYS_MEMBERS and hdr == ("one", "no", "no", 0)
        if not always and int(rt.h8(["c15", list(hdr), members, pl, rec.seed]), 16) % size["class_mod"]:
            continue
        src = c12.program(hdr[0], hdr[1], hdr[2], hdr[3], members, pl)
        if any(findings.triggered("C12", src=src, cfg=c) for c in envs.CFGS[:1]):
            continue
        yield "class:%s/%s/%s" % ("-".join(map(str, hdr)), "+".join(members) or "empty", pl), src, c12.OBS


def sources(rec, size):
    for name, src in TARGETED.items():
        yield "targeted:" + name, src
    for t in class_catalogue(rec, size):
        yield t
    for f in sorted(glob.glob(os.path.join(envs.REPO, "oneliner_tests", "test_cases", "*.py"))):
        yield "repo:" + os.path.basename(f), open(f).read()
    if rec.args.get("slice"):
        return
    # scope trees (the converter's symbol-table handling differs per *host* version: the same program must give
    # text that behaves identically whichever host produced it)
    import random as _random
    from ..gen import scopes as sc
    rng = _random.Random(rec.seed * 6151 + 3)
    prelude = "def log(*a):\n    print(a[:-1], type(a[-1]).__name__ if callable(a[-1]) or type(a[-1]).__name__ == 'module' else a[-1])\n    return a[-1]\n"
    for i in range(size["n"] // 2):
        t = sc.random_tree(rng, rng.choice([3, 3, 4]), "M")
        src = prelude + sc.program(rng.choice(sc.ROLES["M"]), t)
        try:
            if findings.cpython_inlined_comprehension_cell_bug(ast.parse(src)):
                continue
        except SyntaxError:
            continue
        yield "scope:%d" % i, src
    w = {"walrus": 2, "lambdadef": 2, "def": 1, "class": 1, "nestunpack": 1, "import": 1}
    for i in range(size["n"]):
        seed = rec.seed * 1000003 + 900000 + i
        src, feats = progs.generate(seed, py38=True, weights=w)
        yield "gen:%d" % seed, src


def run_shard(rec):
    size = SIZES[rec.tier]
    host = sys.version_info[:2]
    ol = rt.load_oneliner()
    records = []
    seen = set()
    meta = {}
    idx = 0
    for item in sources(rec, size):
        name, src = item[0], item[1]
        pre = item[2] if len(item) > 2 else None
        idx += 1
        if idx % rec.nshards != rec.shard:
            continue
        try:
            tree = ast.parse(src)
            compile(src, "<s>", "exec")
        except (SyntaxError, ValueError):
            rec.inconc("src-syntax-on-host")
            continue
        for cfg in envs.CFGS:
            out, err = observe.convert(src, cfg)
            if err:
                trig = findings.triggered(ID, src=src, cfg=cfg)
                if findings.attribute(trig, err):
                    rec.known_finding(findings.attribute(trig, err))
                else:
                    # every program of this pool is in the supported fragment: a host that refuses it produces no text
                    # at all for the runtimes (host-specific refusals are exactly what the version-specific code paths risk)
                    rec.violation("host-refuses:" + err, {"name": name, "src": src, "cfg": list(cfg), "out": None, "runtime": "-",
                                                          "host": "%d.%d" % host}, None)
                continue
            key = rt.h8(c10.normalise(out))
            if key in seen:
                rec.count("deduplicated-outputs")
                continue
            seen.add(key)
            rid = len(records)
            records.append({"id": rid, "src": src, "out": out, "pre": pre})
            meta[rid] = (name, cfg, tree)
    if not records:
        return
    work = tempfile.mkdtemp(prefix="olverif-xv-")
    try:
        rpath = os.path.join(work, "records.json")
        json.dump(records, open(rpath, "w"))
        for rtv in size["runtimes"]:
            py = envs.interpreter(rtv)
            if not py:
                rec.inconc("missing-interpreter:" + rtv)
                continue
            res = os.path.join(work, "res-%s.json" % rtv)
            try:
                p = subprocess.run([py, RUNNER, rpath, res], capture_output=True, text=True, timeout=3600)
            except subprocess.TimeoutExpired:
                rec.inconc("runtime-runner-timeout:" + rtv)
                continue
            if not os.path.exists(res):
                rec.inconc("runtime-runner-failed:" + rtv)
                rec.note("runner errors", (p.stderr or "")[-200:])
                continue
            data = json.load(open(res))
            rver = tuple(int(x) for x in rtv.split("."))
            for r in data["results"]:
                name, cfg, tree = meta[r["id"]]
                cellname = "host %d.%d -> runtime %s" % (host[0], host[1], rtv)
                if r["orig"] != "ok":
                    rec.inconc("original-fails-on-runtime")
                    continue
                if r.get("same"):
                    rec.ok((host, rtv, r["id"], rec.shard), nontrivial=True)
                    rec.note("interpreter cells held", cellname)
                    continue
                symptom = "runtime-" + r["out"] if r["out"] != "ok" else "runtime-stdout-diff"
                rec0 = records[r["id"]]
                trig = findings.triggered(ID, src=rec0["src"], cfg=cfg)
                kid = findings.attribute(trig, {"runtime-compile-error": "not-expr"}.get(symptom, symptom.replace("runtime-raise:", "eval-raise:").replace("runtime-stdout-diff", "stdout-diff")))
                if kid:
                    rec.known_finding(kid)
                    continue
                # the predicate is evaluated on the source tree and on the *emitted* tree: the converter itself puts
                # string literals into replacement fields (captured / class names become dict['name'] look-ups)
                emitted = None
                if symptom == "runtime-compile-error":
                    try:
                        emitted = ast.parse(rec0["out"], mode="eval")
                    except (SyntaxError, ValueError, RecursionError, MemoryError):
                        emitted = None
                if symptom == "runtime-compile-error" and findings.by_id("KF-fstring-host312-runtime-pre312") and (
                        d18_trigger(tree, cfg, host, rver) or (emitted is not None and d18_trigger(emitted, cfg, host, rver))):
                    rec.known_finding("KF-fstring-host312-runtime-pre312")
                    continue
                if symptom == "runtime-compile-error" and findings.by_id("KF-host-unparse-star-subscript") and (
                        star_subscript_trigger(tree, cfg, host, rver) or (emitted is not None and star_subscript_trigger(emitted, cfg, host, rver))):
                    rec.known_finding("KF-host-unparse-star-subscript")
                    continue
                if symptom in ("runtime-raise:UnboundLocalError", "runtime-raise:NameError") and rver >= (3, 12):
                    # CPython >= 3.12 miscompiles sibling inlined comprehensions (see observe.interpreter_defect_312): the
                    # shape must be in the emitted text and the pre-PEP-709 binaries must evaluate it like the original
                    try:
                        shape = findings.cpython_sibling_inlined_comprehensions(ast.parse(rec0["out"], mode="eval"))
                    except (SyntaxError, ValueError, RecursionError, MemoryError):
                        shape = False
                    if shape and observe.text_is_right_on_neighbour_runtimes(rec0["src"], rec0["out"], rec0.get("pre")) is True:
                        rec.inconc("reference-model-defect:cpython>=3.12 inlined-comprehension variable clash (text is right on 3.10 and 3.11)")
                        continue
                rec.violation(symptom, {"name": name, "src": rec0["src"], "cfg": list(cfg), "out": rec0["out"], "runtime": rtv,
                                        "host": "%d.%d" % host, "pre": rec0.get("pre")},
                              {"msg": r.get("msg"), "expected": r.get("expected"), "observed": r.get("observed")})
        if len(rec.samples) < 1 and records:
            rec.sample({"host": "%d.%d" % host, "runtimes": size["runtimes"], "records_in_this_shard": len(records), "first_program": meta[0][0]})
    finally:
        shutil.rmtree(work, ignore_errors=True)


def replay(case, rec):
    work = tempfile.mkdtemp(prefix="olverif-xv-")
    try:
        out, err = observe.convert(case["src"], tuple(case["cfg"]))
        if err:
            rec.violation("host-refuses:" + err, case, None)
            return
        if case.get("runtime") in (None, "-"):
            rec.ok(case)
            return
        json.dump([{"id": 0, "src": case["src"], "out": out, "pre": case.get("pre")}], open(os.path.join(work, "r.json"), "w"))
        py = envs.interpreter(case["runtime"])
        subprocess.run([py, RUNNER, os.path.join(work, "r.json"), os.path.join(work, "o.json")], timeout=300)
        r = json.load(open(os.path.join(work, "o.json")))["results"][0]
        if r["orig"] != "ok" or r.get("same"):
            rec.ok(case)
        else:
            rec.violation("runtime-" + r["out"], case, r)
    finally:
        shutil.rmtree(work, ignore_errors=True)


def run_witness(kf):
    w = kf["witness"]
    if "runtime" not in w:
        return None, "witness not for this check"
    host = w.get("host", "3.12")
    py_host = envs.interpreter(host)
    py_rt = envs.interpreter(w["runtime"])
    if not py_host or not py_rt:
        return None, "interpreter missing"
    work = tempfile.mkdtemp(prefix="olverif-xv-")
    try:
        code = ("import sys,json; sys.path.insert(0,%r); import oneliner; from oneliner.config import Configs\n"
                "c=Configs(); c.unparser,c.expr_wrapper,c.if_style=%r\n"
                "json.dump([{'id':0,'src':%r,'out':oneliner.convert_code_string(%r,configs=c)}], open(%r,'w'))\n"
                ) % (envs.REPO, tuple(w["cfg"]), w["source"], w["source"], os.path.join(work, "r.json"))
        subprocess.run([py_host, "-c", code], timeout=120, check=True, capture_output=True)
        subprocess.run([py_rt, RUNNER, os.path.join(work, "r.json"), os.path.join(work, "o.json")], timeout=120)
        r = json.load(open(os.path.join(work, "o.json")))["results"][0]
        if r["orig"] == "ok" and not r.get("same"):
            return True, "%s [witness: host %s, runtime %s -> %s]" % (kf["mechanism"], host, w["runtime"], r["out"])
        return False, "witness passes"
    except Exception as e:
        return None, "witness failed to run: %r" % (e,)
    finally:
        shutil.rmtree(work, ignore_errors=True)
