"""C03 - the project's own unparser round-trips every expression tree.

M1: icontract post-condition on the real `expr_unparse` (full-field comparison in AST normal form).
Workloads: exhaustive slot x plug composition (depth 2, depth 3), seeded random deep trees, every
maximal expression of the host's standard library, every tree the converter emits.
"""
import ast
import glob
import os
import random
import sys

from .. import envs, rt, findings, contracts, astnorm
from ..gen import exprs

ID = "C03"
LEVEL = "exploration"
TECHNIQUE = "runtime contract (icontract post-condition on the real expr_unparse) over enumerated, random, corpus and converter-emitted trees"
RULE = ("post-condition on expr_unparse judged on: every (slot, plug) composition from a catalogue of ~175 "
        "(parent kind, operator, slot) positions x ~70 child kinds to depth 2, (slot, slot, plug) to depth 3 "
        "(sampled in quick, full in thorough), seeded random trees of depth 4-8, every maximal expression of the "
        "host's standard library (sampled files in quick, all in thorough, hosts 3.10-3.13 in thorough) and "
        "every tree the converter emits for the repository's scripts, random skeletons and generated programs. "
        "Trees are parse-produced (re-parsed from ast.unparse text). A case is distinct by the normal form of "
        "the tree and non-trivial iff it has at least one operator/slot composition (depth >= 2).")
ASSUMPTIONS = [
    "ast.parse of the host is the reference reader; ast.unparse is used only to obtain source text of a composition",
    "comparison in AST normal form (DESIGN 2.2): ctx, positions, Constant.kind, -N folding, empty f-string pieces",
]
EXHAUSTIVE = {"quick": False, "thorough": False}
FLOOR = {"quick": 100000, "thorough": 1000000}
REQUIRED_MONITORS = ["C03.roundtrip"]
SIZES = {
    "quick": dict(pair_frac=0.5, d3_frac=0.12, rand=60000, corpus_files=120, conv_skel=3000, conv_prog=600),
    "thorough": dict(pair_frac=1.0, d3_frac=1.0, rand=400000, corpus_files=None, conv_skel=40000, conv_prog=8000),
}


def jobs(tier, seed):
    from ..driver import NCPU
    out = [{"host": "3.12", "shard": i, "nshards": NCPU, "args": {"part": "main"}} for i in range(NCPU)]
    hosts = ["3.11"] if tier == "quick" else ["3.10", "3.11", "3.13"]
    for h in hosts:
        n = 4 if tier == "quick" else NCPU
        out += [{"host": h, "shard": i, "nshards": n, "args": {"part": "host"}} for i in range(n)]
    return out


KF_FSTR = "KF-fstring-pre312"


def triples(tree, into):
    for n in ast.walk(tree):
        if not isinstance(n, ast.expr):
            continue
        pk = type(n).__name__ + (":" + type(n.op).__name__ if hasattr(n, "op") else "")
        for f, v in ast.iter_fields(n):
            for c in (v if isinstance(v, list) else [v]):
                if isinstance(c, ast.expr):
                    into.add("%s.%s<%s" % (pk, f, type(c).__name__ + (":" + type(c.op).__name__ if hasattr(c, "op") else "")))


def judge(rec, T0, case, nontrivial=True, kind="tree"):
    """Run the real expr_unparse on T0 under its contract; classify."""
    unp = sys.modules["oneliner.expr_unparse"].expr_unparse
    contracts.MON.drain()

    def call():
        try:
            return unp(T0), None
        except rt.CaseTimeout:
            raise
        except RecursionError:
            return None, "ood:recursion"
        except BaseException as e:
            return None, "raise:" + type(e).__name__
    r, to = rt.guarded(call, 20)
    if to:
        rec.inconc("case-timeout")
        return
    out, err = r
    ev = contracts.MON.drain("C03")
    symptom = err or (ev[0]["detail"] if ev else None)
    if symptom is None:
        try:
            key = rt.h8(repr(astnorm.norm(T0)))
        except RecursionError:
            key = rt.h8(case)
        rec.ok(key, nontrivial=nontrivial)
        return out
    if symptom.startswith("ood:"):
        rec.inconc(symptom)
        return
    if sys.version_info < (3, 12) and symptom in ("raise:SyntaxError", "unparseable") \
            and findings.by_id(KF_FSTR) and findings.fstring_hard(T0):
        rec.known_finding(KF_FSTR)
        return
    rec.violation(symptom, case, {"text": out, "events": ev[:1]})
    return out


def part_compositions(rec, size):
    slots, plugs = exprs.slot_trees(), exprs.plug_trees()
    rec.count("catalogue-slots", 0)
    seen_tr = rec.sets.setdefault("slot-child triples", set())
    idx = 0
    # depth 2
    for s, st in slots:
        for p, pt in plugs:
            idx += 1
            if idx % rec.nshards != rec.shard:
                continue
            T0, src = exprs.parse_produced(exprs.compose(st, pt))
            if T0 is None:
                rec.count("skipped:" + src)
                continue
            triples(T0, seen_tr)
            judge(rec, T0, {"kind": "src", "src": src})
            rec.count("depth2")
    # depth 3
    frac = size["d3_frac"]
    rng = random.Random(rec.seed * 7919 + 17)
    for s, st in slots:
        for s2, st2 in slots:
            idx += 1
            if idx % rec.nshards != rec.shard:
                # keep the rng stream aligned across shards
                if frac < 1.0:
                    rng.random()
                continue
            mid = exprs.compose(st, st2)
            if frac < 1.0:
                k = max(1, int(len(plugs) * frac))
                chosen = random.Random(rng.random()).sample(plugs, k)
            else:
                chosen = plugs
            for p, pt in chosen:
                if rec.out_of_budget():
                    rec.truncated += 1
                    continue
                T0, src = exprs.parse_produced(exprs.compose(mid, pt))
                if T0 is None:
                    rec.count("skipped:" + src)
                    continue
                if len(seen_tr) < 4000:
                    triples(T0, seen_tr)
                judge(rec, T0, {"kind": "src", "src": src})
                rec.count("depth3")
                if len(rec.samples) < 2 and idx % 1201 == 0:
                    rec.sample({"slot": s, "inner_slot": s2, "plug": p, "source": src})


def part_pairs(rec, size):
    """Two-hole compositions: both operands of every binary-like position filled from the plug catalogue."""
    plugs = exprs.plug_trees()
    frac = size.get("pair_frac", 1.0)
    rng = random.Random(rec.seed * 15485863 + 5)
    idx = 0
    for t, tt in exprs.pair_templates():
        for p1, pt1 in plugs:
            for p2, pt2 in plugs:
                idx += 1
                take = frac >= 1.0 or rng.random() < frac
                if idx % rec.nshards != rec.shard or not take:
                    continue
                if rec.out_of_budget():
                    rec.truncated += 1
                    continue
                T0, src = exprs.parse_produced(exprs.compose2(tt, pt1, pt2))
                if T0 is None:
                    rec.count("skipped:" + src)
                    continue
                judge(rec, T0, {"kind": "src", "src": src})
                rec.count("pairs")


def part_random(rec, size):
    slots, plugs = exprs.slot_trees(), exprs.plug_trees()
    rng = random.Random(rec.seed * 104729 + rec.shard)
    for i in range(size["rand"] // rec.nshards):
        if rec.out_of_budget():
            rec.truncated += 1
            continue
        d = rng.randint(4, 8)
        t = exprs.random_wide_tree(rng, slots, plugs, d) if i % 2 else exprs.random_tree(rng, slots, plugs, d)
        T0, src = exprs.parse_produced(t)
        if T0 is None:
            rec.count("skipped:" + src)
            continue
        judge(rec, T0, {"kind": "src", "src": src})
        rec.count("random-deep")
        if len(rec.samples) < 3 and i % 997 == 0:
            rec.sample({"random_depth": d, "source": src})


def part_corpus(rec, size):
    files = exprs.stdlib_files()
    random.Random(rec.seed + 5).shuffle(files)
    if size["corpus_files"]:
        files = files[:size["corpus_files"]]
    for i, f in enumerate(files):
        if i % rec.nshards != rec.shard:
            continue
        if rec.out_of_budget():
            rec.truncated += 1
            continue
        try:
            tree = ast.parse(open(f, encoding="utf8", errors="surrogateescape").read())
        except (SyntaxError, ValueError, RecursionError, UnicodeError):
            rec.count("corpus-unparsable-file")
            continue
        rec.count("corpus-files")
        for j, e in enumerate(exprs.maximal_expressions(tree)):
            trivial = isinstance(e, (ast.Name, ast.Constant))
            if trivial and j % 7:
                continue
            judge(rec, e, {"kind": "corpus", "file": f, "lineno": getattr(e, "lineno", 0),
                           "col": getattr(e, "col_offset", 0)}, nontrivial=not trivial)
            rec.count("corpus-expressions")


def converter_sources(rec, size):
    """Sources whose *emitted trees* are fed to the unparser."""
    for f in sorted(glob.glob(os.path.join(envs.REPO, "oneliner_tests", "test_cases", "*.py"))):
        yield "repo:" + os.path.basename(f), open(f).read()
    from ..gen import skeletons as sk
    rng = random.Random(rec.seed * 31 + 3)
    for i in range(size["conv_skel"]):
        place = rng.choice(["module", "func", "class", "method", "nested"])
        b = sk.rand_block(rng, 4, False, sk.PLACE_IN_FUNC[place], [rng.randint(4, 12)])
        yield "skel:%d" % i, sk.render(b, place)
    try:
        from ..gen import progs
    except ImportError:
        return
    for i in range(size["conv_prog"]):
        yield "prog:%d" % i, progs.generate(rec.seed * 1000003 + i)[0]


def part_converter(rec, size):
    ol = rt.load_oneliner()
    for i, (name, src) in enumerate(converter_sources(rec, size)):
        if i % rec.nshards != rec.shard:
            continue
        if rec.out_of_budget():
            rec.truncated += 1
            continue
        for w in envs.WRAPPERS:
            for s in envs.IFSTYLES:
                cfg = ("oneliner", w, s)
                contracts.MON.drain()
                before = contracts.MON.evals.get("C03.roundtrip", 0)

                def call():
                    try:
                        return ol.convert_code_string(src, "<s>", rt.mkcfg(cfg)), None
                    except rt.CaseTimeout:
                        raise
                    except BaseException as e:
                        return None, type(e).__name__
                r, to = rt.guarded(call, 30)
                if to:
                    rec.inconc("case-timeout")
                    continue
                out, err = r
                ev = contracts.MON.drain("C03")
                reached = contracts.MON.evals.get("C03.roundtrip", 0) > before
                case = {"kind": "convert", "src": src, "cfg": list(cfg)}
                if ev and sys.version_info < (3, 12) and ev[0]["detail"] == "unparseable" \
                        and findings.by_id(KF_FSTR) and findings.fstring_hard(ast.parse(src)):
                    rec.known_finding(KF_FSTR)
                elif ev:
                    rec.violation("emitted-tree:" + ev[0]["detail"], case, ev[0])
                elif err and not reached:
                    # conversion refused the program before unparsing (other properties judge that)
                    rec.inconc("convert-raise-before-unparse")
                elif err:
                    if err == "SyntaxError" and sys.version_info < (3, 12) and findings.by_id(KF_FSTR) \
                            and findings.fstring_hard(ast.parse(src)):
                        rec.known_finding(KF_FSTR)
                    else:
                        rec.violation("emitted-tree:raise:" + err, case)
                else:
                    rec.ok(("conv", name, cfg), nontrivial=True)
                    rec.count("converter-emitted-trees")


def run_shard(rec):
    size = SIZES[rec.tier]
    part = rec.args.get("part", "main")
    if part == "main":
        if rec.shard == 0:
            rt.run_suite_with_contracts(rec, ("C03",))
        part_compositions(rec, size)
        part_pairs(rec, size)
        part_random(rec, size)
        part_corpus(rec, size)
        part_converter(rec, size)
    else:
        # other host interpreters: their own grammar/stdlib (symtable and parser differ per version)
        if rec.tier == "quick":
            size = dict(size, d3_frac=0.02, rand=8000, corpus_files=40, conv_skel=400, conv_prog=100, pair_frac=0.05)
        part_compositions(rec, size)
        part_pairs(rec, size)
        part_random(rec, size)
        part_corpus(rec, size)
        part_converter(rec, size)


def replay(case, rec):
    if case["kind"] == "suite":
        rt.run_suite_with_contracts(rec, ("C03",))
    elif case["kind"] == "src":
        judge(rec, exprs.parse(case["src"]), case)
    elif case["kind"] == "corpus":
        tree = ast.parse(open(case["file"], encoding="utf8", errors="surrogateescape").read())
        for e in exprs.maximal_expressions(tree):
            if getattr(e, "lineno", 0) == case["lineno"] and getattr(e, "col_offset", 0) == case["col"]:
                judge(rec, e, case)
    elif case["kind"] == "convert":
        ol = rt.load_oneliner()
        contracts.MON.drain()
        try:
            ol.convert_code_string(case["src"], "<s>", rt.mkcfg(tuple(case["cfg"])))
        except BaseException as e:
            rec.violation("emitted-tree:raise:" + type(e).__name__, case)
            return
        ev = contracts.MON.drain("C03")
        if ev:
            rec.violation("emitted-tree:" + ev[0]["detail"], case, ev[0])
        else:
            rec.ok(case)


def run_witness(kf):
    w = kf["witness"]
    host = w.get("host")
    if host and "%d.%d" % sys.version_info[:2] != host:
        # the witness only fails on another host interpreter: replay it there
        import json
        import subprocess
        import tempfile
        py = envs.interpreter(host)
        if not py:
            return None, "host %s not available" % host
        with tempfile.NamedTemporaryFile("w", suffix=".json", delete=False) as f:
            json.dump({"case": {"kind": "src", "src": w["source"]}}, f)
        try:
            p = subprocess.run([py, "-m", "olverif.worker", "replay", ID, f.name], capture_output=True,
                               text=True, timeout=120, env=envs.worker_env())
        finally:
            os.unlink(f.name)
        try:
            r = json.loads(p.stdout)
        except ValueError:
            return None, "witness replay failed: " + (p.stdout + p.stderr)[-200:]
        if r["violations"] or r["known"]:
            return True, "%s [witness %r on host %s]" % (kf["mechanism"], w["source"], host)
        return False, "witness passes"
    rec = rt.Recorder(ID, "witness", 0, 0, 1)
    judge(rec, exprs.parse(w["source"]), {"kind": "src", "src": w["source"]})
    if rec.nviol or rec.known:
        return True, kf["mechanism"]
    return False, "witness passes"
