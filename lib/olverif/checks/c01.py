"""C01 - the converted one-liner behaves exactly like the source script.

M2 differential monitor: exec(source) and eval(convert(source, options)) in fresh namespaces in the
same process; byte comparison of captured stdout, canonical comparison of the final user globals
(only `__ol_*` names and the two helper modules may be added).
"""
import ast
import glob
import os
import random

from .. import envs, observe, rt, findings
from ..gen import progs

ID = "C01"
LEVEL = "exploration"
TECHNIQUE = "runtime differential monitor with CPython as executable reference model (stdout + final namespace)"
RULE = ("seeded grammar-based generator of supported-fragment programs (typed environment; assignments of every "
        "target form, augmented assignment, if/elif/else, while/for with else, break/continue/return, functions "
        "with every parameter kind, closures, global/nonlocal, classes with bases/metaclass/keywords/decorators/"
        "static-/class-methods/properties/super(), comprehensions, lambdas, walrus, f-strings, imports) plus the "
        "repository's 16 scripts, each also wrapped into a function body and a class body, x option combinations "
        "(2 rotating per program in quick, all 8 in thorough) on host 3.12 and a slice on 3.11 (thorough: "
        "3.10-3.13). Programs are split *before running* into a clean pool (no known-finding trigger fires) and "
        "a tainted pool. Distinct by (source, options); non-trivial iff the program prints something and defines "
        "at least one function, class or loop.")
ASSUMPTIONS = [
    "CPython executing the source in a fresh namespace is the reference model",
    "function/class metadata (__name__, __qualname__, __doc__, ...) is excluded from the namespace comparison, as the property states",
    "programs whose original raises or exceeds the watchdog are out of the property's domain and only counted",
]
EXHAUSTIVE = {"quick": False, "thorough": False}
FLOOR = {"quick": 3000, "thorough": 40000}
SIZES = {"quick": dict(n=5000, ncfg=2, other=600), "thorough": dict(n=50000, ncfg=8, other=12000)}


def jobs(tier, seed):
    from ..driver import NCPU
    out = [{"host": "3.12", "shard": i, "nshards": NCPU, "args": {}} for i in range(NCPU)]
    for h in (["3.11"] if tier == "quick" else ["3.10", "3.11", "3.13"]):
        n = 4 if tier == "quick" else 8
        out += [{"host": h, "shard": i, "nshards": n, "args": {"other_host": True}} for i in range(n)]
    return out


def indent(src, n=1):
    return "".join(("    " * n + l if l.strip() else l) for l in src.splitlines(True))


def wrap_function(src):
    """Same program inside a function body (module-level names become locals / closure cells)."""
    return "def __main():\n" + indent(src) + "__main()\n"


def wrap_class(src):
    """Same program inside a class body, where legal (checked by running the original)."""
    return "class __Main:\n" + indent(src)


def variants(name, src):
    yield name, src
    yield name + "@func", wrap_function(src)
    yield name + "@class", wrap_class(src)


def nontrivial(src):
    return "print(" in src and any(k in src for k in ("def ", "class ", "for ", "while "))


def judge(rec, name, src, cfg, feats=()):
    trig = findings.triggered(ID, src=src, cfg=cfg)
    o, to = rt.guarded(lambda: observe.differential(src, cfg), 20)
    if to:
        rec.inconc("case-timeout")
        return
    if o.ood:
        rec.inconc(o.status.split(":")[1] if o.status.count(":") else o.status)
        rec.count("out-of-domain")
        return
    case = {"name": name, "src": src, "cfg": list(cfg)}
    pool = "tainted" if trig else "clean"
    if o.ok:
        rec.ok((src, cfg), nontrivial=nontrivial(src))
        rec.count(pool + "-held")
        for f in feats:
            rec.note("features held", f)
        if not trig and len(feats) <= 40:
            fs = sorted(feats)
            for i in range(len(fs)):
                for j in range(i + 1, len(fs)):
                    rec.note("feature pairs that co-occurred in a held clean program", fs[i] + "+" + fs[j])
        if trig:
            for k in trig:
                rec.count("tainted-but-held:" + k["id"])
        return
    kid = findings.attribute(trig, o.status) if trig else None
    if kid:
        rec.known_finding(kid)
        return
    why = observe.interpreter_defect_312(o, src)
    if why:
        rec.inconc(why)
        return
    rec.violation(o.status, case, o.detail)


def sources(rec, size):
    for f in sorted(glob.glob(os.path.join(envs.REPO, "oneliner_tests", "test_cases", "*.py"))):
        yield "repo:" + os.path.basename(f), open(f).read(), ()
    n = size["n"] if not rec.args.get("other_host") else size["other"]
    for i in range(n):
        seed = rec.seed * 1000003 + i
        src, feats = progs.generate(seed)
        yield "gen:%d" % seed, src, feats


def run_shard(rec):
    size = SIZES[rec.tier]
    idx = 0
    for name, src, feats in sources(rec, size):
        idx += 1
        if idx % rec.nshards != rec.shard:
            continue
        if rec.out_of_budget():
            rec.truncated += 1
            continue
        vs = list(variants(name, src))
        if not name.startswith("repo:") and idx % 3:
            vs = vs[:1]       # wrapped variants for every third generated program
        for vname, vsrc in vs:
            if size["ncfg"] >= 8 or name.startswith("repo:"):
                cfgs = envs.CFGS
            else:
                k = (idx + rec.seed) % 8
                cfgs = [envs.CFGS[k], envs.CFGS[(k + 3) % 8]]
            for cfg in cfgs:
                judge(rec, vname, vsrc, cfg, feats)
        if len(rec.samples) < 2 and idx % 401 == 0:
            rec.sample({"name": name, "features": list(feats), "source": src[:1500]})


def replay(case, rec):
    judge(rec, case.get("name", "replay"), case["src"], tuple(case["cfg"]))


def run_witness(kf):
    w = kf["witness"]
    cfgs = envs.CFGS if w.get("cfg", "*") == "*" else [tuple(w["cfg"])]
    for cfg in cfgs:
        o = observe.differential(w["source"], cfg)
        if not o.ok and not o.ood:
            return True, "%s [witness -> %s]" % (kf["mechanism"], o.status)
    return False, "witness passes"
