"""C10 - conversion is a pure function of (source, options) up to fresh-name choice.

M4: history monitor against a 15-line sequential model ("options are per object, initialised to the
defaults, changed only by a successful set on that object; a conversion is a function of (source, the
options the model says that object has)"). Reference texts come from fresh processes with different
PYTHONHASHSEEDs (which must also agree with each other). A structural snapshot of all module-level
state of oneliner.* is taken after every action; a change there is only a *trigger for intensified
checking* (every pool program under every option combination is re-converted and compared at once),
never a verdict - the verdict comes only from results.
"""
import ast
import itertools
import json
import os
import random
import re
import subprocess
import sys

from .. import envs, rt

ID = "C10"
LEVEL = "exploration"
TECHNIQUE = "runtime history monitor against a sequential model; reference results from fresh processes; module-state snapshots as trigger for intensified checking"
RULE = ("histories of API actions {create options object, set an option (legal / illegal value) on some object, convert "
        "program p with object o, convert p with no options, convert a program that is rejected mid-conversion, reseed "
        "`random` with a fixed / the same / a fresh seed} over a pool of 20 programs chosen to touch every global flag and to use the same identifiers in different roles "
        "(while -> itertools, import -> importlib, for+break -> preset wrapper, captured parameters -> parameter set): "
        "exhaustive for length <= 3 over a reduced alphabet (20 actions), seeded sampling for length 4-6 over the full "
        "alphabet; workers run many histories back-to-back in one process (half of them with a random PYTHONHASHSEED), so "
        "state can accumulate over thousands of actions. Every conversion result, normalised by first-occurrence renaming "
        "of __ol_ identifiers, is compared with the reference computed in fresh processes. Distinct by history; "
        "non-trivial iff the history contains a conversion preceded by at least one state-changing action."
        ' The pool contains programs with private (mangled) names and programs in which one spelling is a global in one class-body lambda and a closure variable in another.')
ASSUMPTIONS = ["reference = the same call in a fresh process: every reference cell is computed in a fork()ed child of a process that only imported oneliner; four such processes with different hash seeds must agree",
               "normalisation: every identifier matching __ol_\\w+ is renamed by order of first occurrence"]
EXHAUSTIVE = {"quick": False, "thorough": False}
FLOOR = {"quick": 5000, "thorough": 50000}
MONITORS = False
NEEDS_REPO_IMPORT = True

POOL = [
    "x = 3\nwhile x > 0:\n    x -= 1\nprint(x)\n",
    "import os.path as p, math\nfrom json import dumps as d\nprint(p.sep, math.pi, d(1))\n",
    "for i in range(5):\n    if i == 2:\n        break\nelse:\n    print('no')\nprint(i)\n",
    "def f(alpha, beta, gamma, delta, eps):\n    def g():\n        return alpha + beta + gamma + delta + eps\n    def h():\n        nonlocal beta\n        beta += 1\n    h()\n    return g()\nprint(f(1, 2, 3, 4, 5))\n",
    "class A:\n    k = 1\n    def m(self):\n        return self.k\nclass B(A):\n    def m(self):\n        return super().m() + 1\nprint(B().m())\n",
    "a, (b, *c) = 1, [2, 3, 4]\nc[0] += 1\nd = {}\nd['k'] = a\nprint(a, b, c, d)\n",
    "def outer(n, m, o):\n    tot = 0\n    def add(q):\n        nonlocal tot\n        tot += q + n + m + o\n    for i in range(3):\n        add(i)\n    return tot\nprint(outer(1, 2, 3))\n",
    "w = 5\ns = f'{w!r:>{w}}'\nf = lambda a, b=w: a + b\nprint(s, f(1))\n",
    "",
    "print(1)\n",
    "v = 2\nif v == 1:\n    print('a')\nelif v == 2:\n    print('b')\nelse:\n    print('c')\n",
    "g = 0\ndef bump():\n    global g\n    g += 1\n    while g < 3:\n        g += 1\n        if g == 2:\n            continue\nbump()\nprint(g)\n",
]
# the same identifiers (x, y, f, g, K) in *different roles* across programs: any memo / cache keyed by a bare name,
# by a line number or by a node position that survives a conversion shows up as a differing result
POOL += [
    # private names: the mangling pre-pass rewrites the tree in place (anything that keeps a tree between calls is exposed)
    "class C:\n    __v = 2\n    def __h(self, __a=1):\n        return self.__v + __a\n    class __B:\n        __w = 3\n        def get(self):\n            return self.__w\n    def m(self):\n        return self.__h(), self.__B().get(), self.__B.__name__\nprint(C().m())\n",
    "class _D:\n    import string as __s\n    def __init__(self):\n        self.__x = self.__s.digits[:2]\n    def x(self):\n        def inner():\n            return self.__x\n        return inner()\nprint(_D().x())\n",
    # the same spelling N is a global read by a class-body lambda / generator in one program and a closure variable read by a
    # class-body lambda / generator in another (and both in one program): what one class learns must not reach another
    "N = 10\nclass Cfg:\n    scale = lambda self, v: v * N\n    sizes = tuple(N * i for i in (1, 2, 3))\nprint(Cfg().scale(2), Cfg.sizes)\n",
    "def make(N):\n    class Grower:\n        grow = lambda self, v: v * N\n        sizes = tuple(N * i for i in (1, 2, 3))\n    return Grower\nG = make(3)\nprint(G().grow(2), G.sizes)\n",
    "N = 10\nclass Cfg:\n    scale = lambda self, v: v * N\ndef make(N):\n    class Grower:\n        grow = lambda self, v: v * N\n        sizes = [N * i for i in (1, 2)]\n    return Grower\nprint(Cfg().scale(2), make(3)().grow(2), make(4).sizes)\n",
    "x = 1\ndef f():\n    return x\nclass K:\n    y = x\nprint(f(), K.y)\n",
    "x = 1\ndef f():\n    x = 5\n    def g():\n        global x\n        x += 1\n        return x\n    return g(), x\nprint(f(), x)\n",
    "def f(x):\n    def g():\n        nonlocal x\n        x += 1\n        return x\n    return g() + x\nprint(f(1))\n",
    "class K:\n    x = 2\n    def f(self, y=x):\n        return y + self.x\nx = K().f()\nprint(x)\n",
    "def f(*x, **y):\n    def g():\n        return len(x) + len(y)\n    return g()\nprint(f(1, 2, a=3))\n",
    "f = lambda x, *, y=2: [x + y for x in range(x)]\ng = [f(x) for x in range(3)]\nprint(g)\n",
    "x, (y, *g) = 1, (2, 3, 4)\nx += y\ng[0] -= 1\nprint(x, y, g)\n",
    "for x in range(2):\n    for y in range(2):\n        if y:\n            break\n    else:\n        continue\nwhile x:\n    x -= 1\nprint(x, y)\n",
]
REJECTED = "x = 1\nwhile x:\n    x -= 1\nimport os\nfor i in [1]:\n    break\ndef f(a, b, c):\n    def g():\n        return a + b + c\n    return g\ntry:\n    pass\nfinally:\n    pass\n"
# rejected programs that fail *in the middle* of the work: inside a lambda body, a comprehension, a nested function, a class
# body, a loop, a default expression - whatever stack or set the conversion had pushed by then must not outlive the exception
REJECTED_VARIANTS = [
    REJECTED,
    "x = 1\ngen = lambda x, y=2: (yield x)\n",
    "def f(x):\n    def g():\n        return x\n    return [(yield) for x in [g()]]\n",
    "def f(x, y):\n    def g():\n        nonlocal x\n        x += 1\n        return [await y for y in [x]]\n    return g\n",
    "class K:\n    x = 1\n    y = [x for x in [(yield)]]\n",
    "for x in range(3):\n    while x:\n        def f(g=lambda x: (yield x)):\n            return g\n        break\n",
    "def f(x):\n    class K:\n        y = x\n        def m(self, x=x):\n            with x:\n                pass\n    return K\n",
    "import os\nx = {k: (lambda x: (yield from x)) for k in 'ab'}\n",
    "def f():\n    global g\n    g = [x for x in range(2) if (lambda x: (yield))]\n",
]
OPTION_VALUES = {"unparser": envs.UNPARSERS, "expr_wrapper": envs.WRAPPERS, "if_style": envs.IFSTYLES}
ILLEGAL = [("unparser", "bogus"), ("expr_wrapper", None), ("if_style", 5), ("unparser", "Oneliner")]

_OL = re.compile(r"\b__ol_\w+")


def normalise(text):
    m = {}

    def sub(mo):
        return m.setdefault(mo.group(0), "__ol_%d" % len(m))
    return _OL.sub(sub, text)


REF_SCRIPT = r'''
import sys, json, re, os
sys.path.insert(0, sys.argv[1])
import oneliner
from oneliner.config import Configs
pool = json.loads(sys.stdin.read())
_OL = re.compile(r"\b__ol_\w+")
def norm(t):
    m = {}
    return _OL.sub(lambda mo: m.setdefault(mo.group(0), "__ol_%d" % len(m)), t)
out = {}
import itertools
cfgs = list(itertools.product(["ast.unparse", "oneliner"], ["list", "chain_call"], ["if_expr", "short_circuit"]))
for i, src in enumerate(pool):
    for cfg in cfgs + [None]:
        # every cell is computed in a fork()ed child of a process that has only *imported* oneliner and never
        # converted anything: no state of one reference conversion can reach another one
        r, w = os.pipe()
        pid = os.fork()
        if pid == 0:
            os.close(r)
            try:
                if cfg is None:
                    t = oneliner.convert_code_string(src)
                else:
                    c = Configs()
                    c.if_style = cfg[2]; c.unparser = cfg[0]; c.expr_wrapper = cfg[1]
                    t = oneliner.convert_code_string(src, configs=c)
                os.write(w, norm(t).encode("utf8"))
            finally:
                os._exit(0)
        os.close(w)
        chunks = []
        while True:
            b = os.read(r, 65536)
            if not b:
                break
            chunks.append(b)
        os.close(r)
        os.waitpid(pid, 0)
        out["%d|%s" % (i, "none" if cfg is None else ",".join(cfg))] = b"".join(chunks).decode("utf8")
print(json.dumps(out))
'''


def compute_references(rec):
    """Reference texts from fresh processes with different hash seeds; they must agree with each other."""
    refs = None
    for hs in ("0", "1", "4242", "random"):
        p = subprocess.run([sys.executable, "-c", REF_SCRIPT, envs.REPO], input=json.dumps(POOL), capture_output=True,
                           text=True, timeout=300, env=dict(envs.worker_env(hashseed=hs), PYTHONPATH=""))
        if p.returncode != 0:
            rec.inconc("reference-process-failed")
            rec.crash_note = p.stderr[-500:]
            return None
        r = json.loads(p.stdout)
        rec.count("reference-processes")
        if refs is None:
            refs = r
        elif r != refs:
            bad = sorted(k for k in r if r[k] != refs[k])
            rec.violation("reference-processes-disagree", {"kind": "refs", "hashseed": hs, "keys": bad[:5]},
                          {"a": refs[bad[0]][:300], "b": r[bad[0]][:300]})
            return None
    return refs


# ---------------------------------------------------------------- state snapshot (trigger only)

def _struct(v, depth=0, memo=None):
    if memo is None:
        memo = set()
    if isinstance(v, ast.AST):
        return "AST:" + ast.dump(v)
    if v is None or isinstance(v, (bool, int, float, str, bytes)):
        return repr(v)
    if id(v) in memo or depth > 6:
        return "<seen>"
    memo.add(id(v))
    if isinstance(v, (list, tuple)):
        return [type(v).__name__] + [_struct(x, depth + 1, memo) for x in v]
    if isinstance(v, (set, frozenset)):
        return ["set"] + sorted(repr(_struct(x, depth + 1, memo)) for x in v)
    if isinstance(v, dict):
        return ["dict"] + sorted((repr(k), repr(_struct(x, depth + 1, memo))) for k, x in v.items())
    if isinstance(v, type):
        if not getattr(v, "__module__", "").startswith("oneliner"):
            return "<class %s>" % v.__name__
        return ["class", v.__name__] + sorted((k, repr(_struct(x, depth + 1, memo))) for k, x in vars(v).items()
                                               if not k.startswith("__") or k in ("__dict__",))
    if callable(v) or type(v).__name__ == "module":
        return "<%s>" % type(v).__name__
    d = getattr(v, "__dict__", None)
    if isinstance(d, dict):
        return ["obj", type(v).__name__] + sorted((k, repr(_struct(x, depth + 1, memo))) for k, x in d.items())
    return "<%s>" % type(v).__name__


def snapshot():
    out = {}
    for name, mod in list(sys.modules.items()):
        if mod is None or not (name == "oneliner" or name.startswith("oneliner.")):
            continue
        for k, v in list(vars(mod).items()):
            if k.startswith("__") or type(v).__name__ == "module":
                continue
            if callable(v) and not isinstance(v, type):
                continue
            if isinstance(v, type) and not getattr(v, "__module__", "").startswith("oneliner"):
                continue
            out[name + "." + k] = rt.h8(repr(_struct(v)))
    return out


# ---------------------------------------------------------------- histories

def reduced_alphabet():
    A = [["new"]]
    for o in (0, 1):
        A += [["set", o, "unparser", "oneliner"], ["set", o, "expr_wrapper", "list"], ["set", o, "if_style", "short_circuit"],
              ["set", o, "unparser", "bogus"]]
    for p in (0, 2, 3):
        for o in (0, 1, None):
            A.append(["conv", p, o])
    A += [["bad", 0], ["seed", "fixed"]]
    return A


def random_action(rng, nobj):
    c = rng.random()
    if c < 0.12:
        return ["new"]
    if c < 0.38:
        if rng.random() < 0.2:
            n, v = rng.choice(ILLEGAL)
        else:
            n = rng.choice(sorted(OPTION_VALUES))
            v = rng.choice(OPTION_VALUES[n])
        return ["set", rng.randrange(3), n, v]
    if c < 0.85:
        return ["conv", rng.randrange(len(POOL)), rng.choice([0, 1, 2, None, None])]
    if c < 0.93:
        return ["bad", rng.choice([0, 1, None])]
    return ["seed", rng.choice(["fixed", "same", "fresh"])]


class Runner:
    def __init__(self, rec, refs):
        self.rec = rec
        self.refs = refs
        self.log = []            # every action since process start (replay material)
        self.snap = snapshot()
        self.ol = rt.load_oneliner()
        from oneliner.config import Configs
        self.Configs = Configs
        self.changed_paths = set()

    def compare(self, p, cfg, text, history, ctx):
        key = "%d|%s" % (p, "none" if cfg is None else ",".join(cfg))
        if normalise(text) != self.refs[key]:
            self.rec.violation("result-differs-from-fresh-process", {"kind": "history", "history": history, "log_tail": self.log[-300:],
                                                                      "at": ctx, "key": key},
                               {"expected": self.refs[key][:400], "observed": normalise(text)[:400]})
            return False
        return True

    def sweep(self, history, why):
        """Intensified checking: every pool program under every option combination and with no options."""
        self.rec.count("intensified-sweeps")
        ok = True
        for p, src in enumerate(POOL):
            for cfg in envs.CFGS + [None]:
                try:
                    t = self.ol.convert_code_string(src) if cfg is None else self.ol.convert_code_string(src, "<s>", rt.mkcfg(cfg))
                except Exception as e:
                    self.rec.violation("sweep-conversion-raised:" + type(e).__name__, {"kind": "history", "history": history, "log_tail": self.log[-300:], "at": why}, None)
                    return False
                ok = self.compare(p, cfg, t, history, "sweep after " + why) and ok
                self.rec.count("sweep-conversions")
        return ok

    def run(self, history):
        objs = []      # real option objects
        model = []     # what the model says each object holds
        ok = True
        state_changing = 0
        convs = 0
        for i, a in enumerate(history):
            self.log.append(a)
            kind = a[0]
            if kind == "new":
                if len(objs) < 3:
                    objs.append(self.Configs())
                    model.append(dict(unparser="ast.unparse", expr_wrapper="chain_call", if_style="if_expr"))
                    state_changing += 1
            elif kind == "set":
                if not objs:
                    objs.append(self.Configs())
                    model.append(dict(unparser="ast.unparse", expr_wrapper="chain_call", if_style="if_expr"))
                o = a[1] % len(objs)
                legal = a[3] in OPTION_VALUES.get(a[2], [])
                try:
                    setattr(objs[o], a[2], a[3])
                    raised = False
                except Exception:
                    raised = True
                if legal and raised:
                    self.rec.violation("legal-set-raised", {"kind": "history", "history": history, "log_tail": self.log[-300:], "at": i}, None)
                    ok = False
                if not legal and not raised:
                    self.rec.violation("illegal-set-accepted", {"kind": "history", "history": history, "log_tail": self.log[-300:], "at": i}, None)
                    ok = False
                if legal and not raised:
                    model[o][a[2]] = a[3]
                state_changing += 1
                # the object must read back what the model says (for every object, not only this one)
                for j, ob in enumerate(objs):
                    got = dict(unparser=ob.unparser, expr_wrapper=ob.expr_wrapper, if_style=ob.if_style)
                    if got != model[j]:
                        self.rec.violation("option-readback-differs", {"kind": "history", "history": history, "log_tail": self.log[-300:], "at": i},
                                           {"object": j, "model": model[j], "observed": got})
                        ok = False
            elif kind == "conv":
                p = a[1]
                try:
                    if a[2] is None or not objs:
                        cfg = None
                        t = self.ol.convert_code_string(POOL[p])
                    else:
                        o = a[2] % len(objs)
                        cfg = (model[o]["unparser"], model[o]["expr_wrapper"], model[o]["if_style"])
                        t = self.ol.convert_code_string(POOL[p], "<s>", objs[o])
                except Exception as e:
                    # every pool program converts in a fresh process: a refusal here depends on history
                    self.rec.violation("conversion-raised-after-history:" + type(e).__name__,
                                       {"kind": "history", "history": history, "log_tail": self.log[-300:], "at": i}, str(e)[:200])
                    ok = False
                    continue
                convs += 1
                self.rec.count("conversions-compared")
                ok = self.compare(p, cfg, t, history, i) and ok
            elif kind == "bad":
                bad_src = REJECTED_VARIANTS[(len(self.log) * 7 + i) % len(REJECTED_VARIANTS)]
                try:
                    if a[1] is None or not objs:
                        self.ol.convert_code_string(bad_src)
                    else:
                        self.ol.convert_code_string(bad_src, "<s>", objs[a[1] % len(objs)])
                    self.rec.count("rejected-program-converted?")
                except Exception:
                    self.rec.count("rejected-conversions")
                state_changing += 1
            elif kind == "seed":
                if a[1] in ("fixed", "same"):
                    random.seed(20240926)
                else:
                    random.seed()
                state_changing += 1
            # state snapshot: trigger only
            s = snapshot()
            if s != self.snap:
                changed = sorted(k for k in set(s) | set(self.snap) if s.get(k) != self.snap.get(k))
                for c in changed:
                    self.changed_paths.add(c)
                    self.rec.note("module-state paths that changed (trigger only)", c)
                self.snap = s
                ok = self.sweep(history, "state change at action %d: %s" % (i, changed[:3])) and ok
        if ok:
            self.rec.ok(history, nontrivial=convs > 0 and state_changing > 0)
        return ok


def jobs(tier, seed):
    from ..driver import NCPU
    return [{"host": "3.12", "shard": i, "nshards": NCPU, "args": {}, "hashseed": "0" if i % 2 == 0 else "random"} for i in range(NCPU)]


def run_shard(rec):
    refs = compute_references(rec)
    if refs is None:
        return
    R = Runner(rec, refs)
    # a first sweep: does the current process agree with the fresh processes at all?
    R.sweep([], "process start (hash seed %s)" % os.environ.get("PYTHONHASHSEED"))
    A = reduced_alphabet()
    idx = 0
    for n in (1, 2, 3):
        for h in itertools.product(A, repeat=n):
            idx += 1
            if idx % rec.nshards != rec.shard:
                continue
            R.run([list(a) for a in h])
            rec.count("exhaustive-histories")
    nrand = 4000 if rec.tier == "quick" else 120000
    rng = random.Random(rec.seed * 99991 + rec.shard)
    for i in range(nrand // rec.nshards):
        if rec.out_of_budget():
            rec.truncated += 1
            continue
        n = rng.randint(4, 6)
        h = [random_action(rng, 3) for _ in range(n)]
        R.run(h)
        rec.count("sampled-histories")
        if len(rec.samples) < 2 and i % 53 == 0:
            rec.sample({"history": h})
    rec.count("actions-in-process-history", len(R.log))
    # final sweep after the whole process history
    R.sweep([], "end of process history (%d actions)" % len(R.log))


def replay(case, rec):
    refs = compute_references(rec)
    if refs is None:
        return
    R = Runner(rec, refs)
    if case.get("kind") == "history":
        for a in case.get("log_tail", [])[:-len(case["history"]) or None]:
            try:
                R.run([a])
            except Exception:
                pass
        R.run(case["history"])
    else:
        R.sweep([], "replay")


def run_witness(kf):
    return None, "no witness runner"
