"""C04 - the own unparser preserves literals exactly and never emits a line break.

M1: the icontract post-condition on the real `expr_unparse` (one physical line, parses back to the
same constants / f-string structure) plus one on `get_unescaped_str`; additionally original and
re-parsed f-strings are *evaluated* in a fixed environment and must give the same string.
"""
import ast
import itertools
import random
import sys

from .. import envs, rt, findings, contracts, astnorm
from ..gen import exprs

ID = "C04"
LEVEL = "exploration"
TECHNIQUE = "runtime contracts (icontract) on the real expr_unparse / get_unescaped_str over enumerated literal space + evaluation equality of f-strings"
RULE = ("every code point 0..0x2FF, a seeded sample of every plane and all surrogate boundaries, each as bare str "
        "constant / literal part of an f-string / string nested in a replacement field / inside a format spec / "
        "bytes (<=0xFF); every string of length <=4 over {' \" \\ { } newline a} in the same placements; a numeric "
        "catalogue incl. non-finite and complex values; f-strings from conversion {none,r,s,a} x format-spec shape "
        "{none, constant, field, constant+field, field+constant, field+field} x nesting depth <=3 x nested literal "
        "kind; every literal and f-string of sampled (thorough: all) standard-library files. Distinct by tree "
        "normal form; non-trivial iff the literal needs escaping/quoting decisions (contains a quote, backslash, "
        "brace, control, non-ASCII or surrogate character, is non-finite/complex, or is an f-string).")
ASSUMPTIONS = [
    "ast.parse / ast.literal_eval of the host are the reference readers",
    "hosts < 3.12 cannot express some f-strings on one line with two quote styles: recorded finding KF-fstring-pre312",
]
EXHAUSTIVE = {"quick": False, "thorough": False}
FLOOR = {"quick": 30000, "thorough": 200000}
REQUIRED_MONITORS = ["C03.roundtrip", "C04.unescape"]
KF_FSTR = "KF-fstring-pre312"
ALPHABET = ["'", '"', "\\", "{", "}", "\n", "a"]

ENV = {"x": 3.14159, "w": 8, "a": "aé'\"", "b": 42, "d": {"k": [1, 2]}, "n": None}


def jobs(tier, seed):
    from ..driver import NCPU
    out = [{"host": "3.12", "shard": i, "nshards": NCPU, "args": {}} for i in range(NCPU)]
    for h in (["3.11"] if tier == "quick" else ["3.10", "3.11", "3.13"]):
        n = 4 if tier == "quick" else 8
        out += [{"host": h, "shard": i, "nshards": n, "args": {"other_host": True}} for i in range(n)]
    return out


def _nontrivial_value(v):
    if isinstance(v, bytes):
        v = v.decode("latin-1")
    if isinstance(v, str):
        return any(c in "'\"\\{}" or ord(c) < 32 or ord(c) > 126 for c in v)
    if isinstance(v, (float, complex)):
        return v != v or abs(v) == float("inf") or isinstance(v, complex)
    return False


def N(name):
    return ast.Name(id=name, ctx=ast.Load())


def K(v):
    return ast.Constant(value=v)


def FV(value, conv=-1, spec=None):
    return ast.FormattedValue(value=value, conversion=conv, format_spec=spec)


def JS(*values):
    return ast.JoinedStr(values=list(values))


def placements(s):
    """Trees that carry the string s in every position the property names."""
    yield "bare", K(s)
    yield "fstring-literal", JS(K(s), FV(N("x")))
    yield "fstring-literal-after", JS(FV(N("x")), K(s))
    yield "nested-in-field", JS(FV(K(s)))
    yield "nested-in-field-call", JS(K("<"), FV(ast.Call(func=N("len"), args=[K(s)], keywords=[])), K(">"))
    yield "format-spec", JS(FV(N("a"), -1, JS(K(s))))
    yield "format-spec-with-field", JS(FV(N("a"), -1, JS(K(s), FV(N("w")))))
    yield "dict-key-in-field", JS(FV(ast.Subscript(value=ast.Dict(keys=[K(s)], values=[N("b")]), slice=K(s), ctx=ast.Load())))
    if all(ord(c) <= 0xFF for c in s):
        yield "bytes", K(s.encode("latin-1"))
        yield "bytes-in-field", JS(FV(K(s.encode("latin-1"))))


def code_points(rng, tier):
    for cp in range(0x300):
        yield cp
    sur = [0xD7FF, 0xD800, 0xD801, 0xDBFF, 0xDC00, 0xDFFF, 0xE000, 0xFFFD, 0xFFFE, 0xFFFF, 0x10000, 0x10FFFF,
           0x2028, 0x2029, 0x85, 0x1F600, 0xFEFF, 0x200B, 0x202E]
    for cp in sur:
        yield cp
    per_plane = 60 if tier == "quick" else 600
    for plane in range(17):
        for _ in range(per_plane if plane < 3 or plane in (14, 15, 16) else per_plane // 6):
            yield plane * 0x10000 + rng.randrange(0x10000)


NUMBERS = [0, 1, -1, 2 ** 63, -2 ** 63, 2 ** 64 + 1, 10 ** 100, 1e308, 5e-324, 1e309, -1e309, 1e16, 1e22, 1e23,
           0.1, 0.30000000000000004, 1.5e-300, -0.0, 0.0, 1.0, 1j, 1e309j, -1e309j, 0j, 2.5j, 1e-7, 123456789.123456789,
           float("1e400"), 1e15, 1e17, 2 ** 31, 255, True, False, None, Ellipsis]

SPEC_SHAPES = {
    "none": lambda lit: None,
    "constant": lambda lit: JS(K(">10")),
    "field": lambda lit: JS(FV(N("w"))),
    "constant+field": lambda lit: JS(K(">"), FV(N("w"))),
    "field+constant": lambda lit: JS(FV(N("w")), K("s")),
    "field+field": lambda lit: JS(FV(N("w")), FV(N("n"), ord("s"))),
    "literal-in-spec-field": lambda lit: JS(K("<"), FV(ast.Call(func=N("len"), args=[lit], keywords=[]))),
}
NESTED_LITS = {
    "name": lambda: N("x"),
    "str": lambda: K("s"),
    "str-quote1": lambda: K("it's"),
    "str-quote2": lambda: K('say "hi"'),
    "str-both": lambda: K("'\""),
    "str-newline": lambda: K("a\nb"),
    "str-brace": lambda: K("{}"),
    "str-backslash": lambda: K("\\"),
    "bytes": lambda: K(b"b'\""),
    "dict-display": lambda: ast.Dict(keys=[K("k")], values=[K(1)]),
    "set-display": lambda: ast.Set(elts=[K(1)]),
    "lambda": lambda: ast.Call(func=ast.Lambda(args=ast.arguments(posonlyargs=[], args=[], kwonlyargs=[], kw_defaults=[], defaults=[]), body=K(1)), args=[], keywords=[]),
    "ifexp": lambda: ast.IfExp(test=N("b"), body=K("y"), orelse=K("n")),
    "float-inf": lambda: K(1e309),
    "compare": lambda: ast.Compare(left=N("b"), ops=[ast.NotEq()], comparators=[K(1)]),
    "walrus": lambda: ast.NamedExpr(target=ast.Name(id="q", ctx=ast.Store()), value=K(1)),
}


def fstring_product():
    for conv, (sname, smk), (lname, lmk), depth in itertools.product(
            [-1, ord("r"), ord("s"), ord("a")], SPEC_SHAPES.items(), NESTED_LITS.items(), [1, 2, 3]):
        inner = lmk()
        t = JS(K("p"), FV(inner, conv, smk(lmk())), K("q{}"))
        for _ in range(depth - 1):
            t = JS(K("<"), FV(t, conv if depth == 2 else -1, smk(lmk()) if depth == 3 else None), K(">"))
        yield "conv=%s spec=%s lit=%s depth=%d" % (chr(conv) if conv > 0 else "-", sname, lname, depth), t


def evaluate(tree):
    try:
        return ("ok", eval(compile(ast.fix_missing_locations(ast.Expression(body=tree)), "<f>", "eval"), dict(ENV)))
    except Exception as e:
        return ("exc", type(e).__name__)


def _twin_ok(T):
    """A tree with lone surrogates cannot go through the reference renderer; its twin (surrogates
    replaced by 'a') decides whether the *shape* is parse-producible (e.g. no braces in a format spec)."""
    import copy
    tw = copy.deepcopy(T)
    for n in ast.walk(tw):
        if isinstance(n, ast.Constant) and isinstance(n.value, str):
            n.value = "".join("a" if 0xD800 <= ord(c) <= 0xDFFF else c for c in n.value)
    T0, src = exprs.parse_produced(ast.fix_missing_locations(tw))
    if T0 is None:
        return False
    try:
        return astnorm.norm(T0) == astnorm.norm(tw)
    except RecursionError:
        return False


def judge(rec, T, case, nontrivial=True, parse_produced=True, synthesized=True):
    ast.fix_missing_locations(T)
    T0 = T
    if not parse_produced and synthesized and not _twin_ok(T):
        rec.count("skipped:surrogate-twin-not-parse-producible")
        return
    if parse_produced:
        T0, src = exprs.parse_produced(T)
        if T0 is None:
            rec.count("skipped:" + src)
            return
        try:
            if astnorm.norm(T0) != astnorm.norm(T):
                rec.count("composition-altered-by-reference-renderer")
        except RecursionError:
            pass
    unp = sys.modules["oneliner.expr_unparse"].expr_unparse
    contracts.MON.drain()
    try:
        out, err = unp(T0), None
    except rt.CaseTimeout:
        raise
    except BaseException as e:
        out, err = None, "raise:" + type(e).__name__
    ev = [e for e in contracts.MON.drain() if e["prop"] in ("C03", "C04")]
    symptom = err or (ev[0]["detail"] if ev else None)
    if symptom is None and any(isinstance(n, ast.JoinedStr) for n in ast.walk(T0)):
        # evaluation equality in a fixed environment
        v1 = evaluate(T0)
        v2 = evaluate(ast.parse(out, mode="eval").body)
        rec.count("fstrings-evaluated")
        if v1 != v2:
            symptom = "eval-differs"
    if symptom is None:
        rec.ok(rt.h8(repr(astnorm.norm(T0))), nontrivial=nontrivial)
        return out
    if sys.version_info < (3, 12) and symptom in ("raise:SyntaxError", "unparseable") \
            and findings.by_id(KF_FSTR) and findings.fstring_hard(T0):
        rec.known_finding(KF_FSTR)
        return
    if case.get("kind") == "longf":
        try:
            case = {"kind": "src", "src": ast.unparse(T0)}
        except Exception:
            pass
    rec.violation(symptom, case, {"text": out, "events": ev[:1]})


def check_unescape(rec, s):
    f = getattr(sys.modules["oneliner.expr_unparse"], "get_unescaped_str", None)
    if f is None:
        rec.count("get_unescaped_str-absent")
        return
    for qm in ("'", '"'):
        contracts.MON.drain()
        try:
            f(s, qm)
        except rt.CaseTimeout:
            raise
        except BaseException as e:
            rec.violation("unescape-raise:" + type(e).__name__, {"kind": "unescape", "s": s, "qm": qm})
            continue
        ev = contracts.MON.drain("C04")
        if ev:
            rec.violation("unescape:" + ev[0]["detail"], {"kind": "unescape", "s": s, "qm": qm}, ev[0])
        else:
            rec.ok(("unesc", s, qm), nontrivial=_nontrivial_value(s))


def run_shard(rec):
    tier = rec.tier
    other = rec.args.get("other_host")
    rng = random.Random(rec.seed * 613 + 11)
    idx = 0

    def mine():
        nonlocal idx
        idx += 1
        return idx % rec.nshards == rec.shard

    # 1. single code points in every placement
    for cp in code_points(rng, tier):
        ch = chr(cp)
        if not mine():
            continue
        check_unescape(rec, ch)
        check_unescape(rec, "a" + ch + "'")
        for pname, T in placements(ch):
            judge(rec, T, {"kind": "cp", "cp": cp, "placement": pname}, nontrivial=True,
                  parse_produced=not (0xD800 <= cp <= 0xDFFF))
            rec.count("codepoint-placements")
        if len(rec.samples) < 1 and cp == 0x27 + rec.shard:
            rec.sample({"code_point": cp, "placements": [p for p, _ in placements(ch)]})
    # 2. all strings of length <= 4 over the hostile alphabet
    maxlen = 4 if not other else 3
    for n in range(1, maxlen + 1):
        for tup in itertools.product(ALPHABET, repeat=n):
            if not mine():
                continue
            s = "".join(tup)
            check_unescape(rec, s)
            for pname, T in placements(s):
                if n == 4 and pname in ("nested-in-field-call", "dict-key-in-field", "fstring-literal-after", "bytes-in-field"):
                    continue
                judge(rec, T, {"kind": "str", "s": s, "placement": pname})
                rec.count("hostile-strings")
    # 2b. escape-interaction pairs: a character that needs an escape followed by one that could extend the escape
    #     (octal / hex digits, x u U N, braces, quotes, backslash) - an escape spelled too short swallows its follower
    firsts = [chr(c) for c in list(range(0, 0x21)) + [0x7f, 0x80, 0x85, 0x9f, 0xa0, 0xad, 0xff, 0x100, 0x2028, 0xd800, 0xdfff, 0xffff, 0x10000]] + ["\\", "'", '"', "{", "}"]
    seconds = list("0123456789abcdefABCDEFxuUN{}'\"\\\n ") + ["\x00", "\xff"]
    for a in firsts:
        for b in seconds:
            if not mine():
                continue
            for s in (a + b, a + b + b, "q" + a + b + "7"):
                check_unescape(rec, s)
                for pname, T in placements(s):
                    if pname in ("bare", "fstring-literal", "bytes", "nested-in-field", "format-spec"):
                        judge(rec, T, {"kind": "str", "s": s, "placement": pname},
                              parse_produced=not any(0xD800 <= ord(c) <= 0xDFFF for c in s))
                        rec.count("escape-follow-pairs")
    # 3. numbers
    for v in NUMBERS:
        if not mine():
            continue
        for wrap_name, wrap in (("bare", lambda t: t), ("neg", lambda t: ast.UnaryOp(op=ast.USub(), operand=t)),
                                ("attr", lambda t: ast.Attribute(value=t, attr="real", ctx=ast.Load())),
                                ("pow", lambda t: ast.BinOp(left=t, op=ast.Pow(), right=K(2))),
                                ("in-field", lambda t: JS(FV(t))), ("in-spec", lambda t: JS(FV(N("x"), -1, JS(FV(t)))))):
            if v is None or v is Ellipsis or isinstance(v, bool) or (isinstance(v, (int, float)) and v < 0) or (isinstance(v, complex) and (v.imag < 0 or v.real)):
                if wrap_name != "bare" and not isinstance(v, (bool, type(None))):
                    continue
            judge(rec, wrap(K(v)), {"kind": "num", "v": repr(v), "wrap": wrap_name},
                  nontrivial=True, parse_produced=not (isinstance(v, (int, float)) and not isinstance(v, bool) and v < 0))
            rec.count("numbers")
    # 4. f-string product
    for name, T in fstring_product():
        if not mine():
            continue
        judge(rec, T, {"kind": "fstring", "name": name})
        rec.count("fstring-product")
        if len(rec.samples) < 2 and idx % 211 == 0:
            try:
                rec.sample({"fstring": name, "source": ast.unparse(ast.fix_missing_locations(T))})
            except Exception:
                rec.sample({"fstring": name})
    # 5. random strings mixing everything
    pool = ALPHABET + ["\r", "\t", "\x00", "\x7f", "\x80", "\xff", "é", " ", "\ud800", "\U0001F600", "{{", "}}", " ",
                       "0", "7", "9", "x", "u", "N", "f", "1", "\x01", "\x1b"]
    nrand = (4000 if tier == "quick" else 60000) // (4 if other else 1)
    r2 = random.Random(rec.seed * 977 + rec.shard)
    for i in range(nrand // rec.nshards):
        s = "".join(r2.choice(pool) for _ in range(r2.randint(1, 12)))
        check_unescape(rec, s)
        pl = list(placements(s))
        pname, T = pl[r2.randrange(len(pl))]
        judge(rec, T, {"kind": "str", "s": s, "placement": pname}, parse_produced="\ud800" not in s)
        rec.count("random-strings")
    # 5b. long random f-strings: many pieces, hostile literal parts between fields of every shape
    nlong = (6000 if tier == "quick" else 80000) // (4 if other else 1)
    specs = list(SPEC_SHAPES.values())
    lits = list(NESTED_LITS.values())
    safe_pool = [c for c in pool if c not in ("\ud800",)]
    for i in range(nlong // rec.nshards):
        vals = []
        for _ in range(r2.randint(3, 14)):
            if r2.random() < 0.5:
                vals.append(K("".join(r2.choice(safe_pool) for _ in range(r2.randint(1, 5)))))
            else:
                lit = r2.choice(lits)
                vals.append(FV(lit(), r2.choice([-1, -1, ord("r"), ord("s"), ord("a")]), r2.choice(specs)(lit())))
        judge(rec, JS(*vals), {"kind": "longf", "i": i, "shard": rec.shard, "nshards": rec.nshards, "seed": rec.seed,
                               "src": None})
        rec.count("long-random-fstrings")
    # 6. corpus literals
    files = exprs.stdlib_files()
    random.Random(rec.seed + 9).shuffle(files)
    files = files[:(100 if tier == "quick" else len(files)) // (3 if other else 1)]
    for i, f in enumerate(files):
        if i % rec.nshards != rec.shard:
            continue
        if rec.out_of_budget():
            rec.truncated += 1
            continue
        try:
            tree = ast.parse(open(f, encoding="utf8", errors="surrogateescape").read())
        except (SyntaxError, ValueError, RecursionError, UnicodeError):
            continue
        rec.count("corpus-files")
        inside = set()
        for n in ast.walk(tree):
            if isinstance(n, ast.JoinedStr) and id(n) not in inside:
                for c in ast.walk(n):
                    inside.add(id(c))
                judge(rec, n, {"kind": "corpus", "file": f, "lineno": n.lineno, "col": n.col_offset}, parse_produced=False, synthesized=False)
                rec.count("corpus-fstrings")
            elif isinstance(n, ast.Constant) and id(n) not in inside:
                nt = _nontrivial_value(n.value)
                if not nt and (n.lineno % 5):
                    continue
                judge(rec, n, {"kind": "corpus", "file": f, "lineno": n.lineno, "col": n.col_offset},
                      nontrivial=nt, parse_produced=False, synthesized=False)
                rec.count("corpus-constants")


def replay(case, rec):
    k = case["kind"]
    if k == "unescape":
        check_unescape(rec, case["s"])
    elif k in ("cp", "str"):
        s = chr(case["cp"]) if k == "cp" else case["s"]
        for pname, T in placements(s):
            if pname == case["placement"]:
                judge(rec, T, case, parse_produced=not any(0xD800 <= ord(c) <= 0xDFFF for c in s))
    elif k == "fstring":
        for name, T in fstring_product():
            if name == case["name"]:
                judge(rec, T, case)
    elif k == "src":
        judge(rec, exprs.parse(case["src"]), case, parse_produced=False, synthesized=False)
    elif k == "num":
        rec.inconc("replay-of-number-cases-by-rerun")
    elif k == "corpus":
        tree = ast.parse(open(case["file"], encoding="utf8", errors="surrogateescape").read())
        for n in ast.walk(tree):
            if getattr(n, "lineno", None) == case["lineno"] and getattr(n, "col_offset", None) == case["col"] \
                    and isinstance(n, (ast.JoinedStr, ast.Constant)):
                judge(rec, n, case, parse_produced=False, synthesized=False)
                break


def run_witness(kf):
    from . import c03
    w = kf["witness"]
    host = w.get("host")
    if host and "%d.%d" % sys.version_info[:2] != host:
        import json
        import os
        import subprocess
        import tempfile
        py = envs.interpreter(host)
        if not py:
            return None, "host %s not available" % host
        with tempfile.NamedTemporaryFile("w", suffix=".json", delete=False) as f:
            json.dump({"case": {"kind": "src", "src": w["source"]}}, f)
        try:
            p = subprocess.run([py, "-m", "olverif.worker", "replay", ID, f.name], capture_output=True,
                               text=True, timeout=120, env=envs.worker_env())
        finally:
            os.unlink(f.name)
        try:
            r = json.loads(p.stdout)
        except ValueError:
            return None, "witness replay failed: " + (p.stdout + p.stderr)[-200:]
        if r["violations"] or r["known"]:
            return True, "%s [witness %r on host %s]" % (kf["mechanism"], w["source"], host)
        return False, "witness passes"
    rec = rt.Recorder(ID, "witness", 0, 0, 1)
    judge(rec, exprs.parse(w["source"]), {"kind": "src", "src": w["source"]}, parse_produced=False, synthesized=False)
    return (True, kf["mechanism"]) if (rec.nviol or rec.known) else (False, "witness passes")
