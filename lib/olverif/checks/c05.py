"""C05 - break/continue/return/else are lowered with exact statement-level control flow.

M3 trace monitor: every skeleton statement is a marker call, every if/while test a condition
probe answering from a seeded schedule, every for-iterable a logging iterator. The event log of
exec(source) must equal the event log of eval(translation), event by event.
"""
import itertools
import random

from .. import envs, observe, rt, findings
from ..gen import skeletons as sk

ID = "C05"
LEVEL = "exploration"
TECHNIQUE = "runtime trace monitor: probe event logs of exec(source) vs eval(translation) compared event by event"
MONITORS = False  # M1 contracts are not the oracle here; switched off for throughput
RULE = ("exhaustive enumeration of control-flow skeletons (blocks of 1-2 statements from "
        "{marker, break, continue, return, if+-else, while+-else, for+-else}, nesting<=3, size<=S) x "
        "placement {module, function, class} x 3 branch schedules x option combinations, plus a seeded "
        "random sampler of deeper skeletons (nesting<=5, 6-14 statements, placements incl. method and "
        "function-defined-in-a-loop). A case is distinct by (source, schedule, options) and non-trivial "
        "iff the original's run actually *took* a break/continue/return (observed by an instrumented twin)."
        ' Every enumerated skeleton with a loop is also rendered with assignment expressions in all loop headers (`while (t := w(k)):`, `for v in (s := it(k)):`, observed from the body); every third `return` of a skeleton is a bare `return` after its marker.')
ASSUMPTIONS = [
    "CPython executing the source is the reference model",
    "probes answer from a seeded schedule consumed in call order; the same schedule is used for both runs",
    "while loops and iterators draw from a shared logical fuel; skeletons whose original exhausts it are out of domain",
]
EXHAUSTIVE = {"quick": False, "thorough": False}
FLOOR = {"quick": 50000, "thorough": 200000}

SIZES = {"quick": dict(S=6, rand=120000, allcfg=False), "thorough": dict(S=7, rand=2000000, allcfg=False)}
RAND_PLACES = ["module", "func", "func", "class", "method", "nested"]


def jobs(tier, seed):
    from ..driver import default_jobs
    return default_jobs(tier, seed)


def run_case(rec, src, sched, cfg, twin_src=None, key=None):
    """Judge one (source, schedule, options) case."""
    def mkenv():
        return sk.harness(sched)
    o, to = rt.guarded(lambda: observe.differential(src, cfg, mkenv, globals_cmp=False, keep=True))
    if to:
        rec.inconc("case-timeout")
        return None
    if o.ood:
        rec.inconc(o.status)
        return None
    case = {"src": src, "sched": sched, "cfg": list(cfg)}
    if o.ok:
        nontrivial = False
        if twin_src is not None:
            ns, _ = sk.harness(sched)
            try:
                exec(compile(twin_src, "<twin>", "exec"), ns)
            except BaseException:
                pass
            nontrivial = bool(ns["_taken_set"])
        if nontrivial:
            rec.count("took-an-interrupt")
        rec.ok(key or case, nontrivial=nontrivial)
        return o
    trig = findings.triggered(ID, src=src, cfg=cfg)
    kid = findings.attribute(trig, o.status)
    if kid:
        rec.known_finding(kid)
    else:
        rec.violation(o.status, case, o.detail)
    return o


def run_shard(rec):
    size = SIZES[rec.tier]
    S = size["S"]
    idx = 0
    # ---- exhaustive part
    for place in sk.PLACES:
        for b in sk.blocks(3, False, sk.PLACE_IN_FUNC[place], S):
            for sched in (1, 2, 3):
                idx += 1
                if idx % rec.nshards != rec.shard:
                    continue
                if rec.out_of_budget():
                    rec.truncated += 1
                    continue
                cfg = envs.CFGS[(idx // rec.nshards + rec.seed) % 8]
                src = sk.render(b, place)
                twin = sk.render(b, place, True) if sk.has_interrupt(b) else None
                o = run_case(rec, src, sched + 1000 * rec.seed, cfg, twin)
                rec.count("enumerated")
                if o is not None and o.ok and len(rec.samples) < 2 and twin and idx % 977 == 0:
                    rec.sample({"source": src, "options": cfg, "schedule": sched, "events": len(o.log1 or [])})
    rec.count("enumeration-size-total", 0)
    # ---- exhaustive small part under all 8 option combinations (S<=5)
    idx = 0
    for place in sk.PLACES:
        for b in sk.blocks(3, False, sk.PLACE_IN_FUNC[place], 5 if rec.tier == "quick" else 6):
            if not sk.has_interrupt(b):
                continue
            idx += 1
            if idx % rec.nshards != rec.shard:
                continue
            src = sk.render(b, place)
            twin = sk.render(b, place, True)
            for ci, cfg in enumerate(envs.CFGS):
                if rec.out_of_budget():
                    rec.truncated += 1
                    continue
                run_case(rec, src, 7 + rec.seed, cfg, twin)
                rec.count("enumerated-allcfg")
            if sk.has_loop(b):
                # the same skeleton with assignment expressions in every loop header (test / iterable)
                wsrc = sk.render(b, place, walrus=True)
                for cfg in (envs.CFGS[(idx + rec.seed) % 8], envs.CFGS[(idx + rec.seed + 3) % 8]):
                    run_case(rec, wsrc, 11 + rec.seed, cfg, sk.render(b, place, True, walrus=True))
                    rec.count("enumerated-walrus-headers")
    # ---- biased random deep sampler
    n = size["rand"]
    rng = random.Random(rec.seed * 1000003 + rec.shard)
    for i in range(n // rec.nshards):
        if rec.out_of_budget():
            rec.truncated += 1
            continue
        place = rng.choice(RAND_PLACES)
        if i % 4 == 3:
            b = sk.rand_long(rng, sk.PLACE_IN_FUNC[place])
            rec.count("random-long-flat")
        else:
            b = sk.rand_block(rng, 5, False, sk.PLACE_IN_FUNC[place], [rng.randint(6, 14)])
        wal = rng.random() < 0.2
        src = sk.render(b, place, walrus=wal)
        twin = sk.render(b, place, True, walrus=wal) if sk.has_interrupt(b) else None
        if wal:
            rec.count("random-walrus-headers")
        cfg = envs.CFGS[rng.randrange(8)]
        sched = rng.randint(1, 10 ** 6)
        o = run_case(rec, src, sched, cfg, twin)
        rec.count("random-deep")
        if o is not None and o.ok and len(rec.samples) < 3 and twin and i % 501 == 0:
            rec.sample({"source": src, "options": cfg, "schedule": sched,
                        "first_events": [list(map(str, e)) for e in (o.log1 or [])[:12]]})


def _keep_logs(fn):
    return fn


def replay(case, rec):
    run_case(rec, case["src"], case["sched"], tuple(case["cfg"]))


def run_witness(kf):
    w = kf["witness"]
    cfgs = envs.CFGS if w.get("cfg", "*") == "*" else [tuple(w["cfg"])]
    for cfg in cfgs:
        o = observe.differential(w["source"], cfg, lambda: sk.harness(w.get("sched", 1)), globals_cmp=False)
        if not o.ok and not o.ood:
            return True, "%s -> %s" % (kf["mechanism"], o.status)
    return False, "witness passes"
