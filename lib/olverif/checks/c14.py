"""C14 - imports bind the same objects to the same names.

M3+M2 against a vendored package tree (fixtures/olpkg) whose modules log their own import: the import
log (which module bodies ran, in which order, how often), the sys.modules delta and the identity of
the object bound to each name must coincide. (The `import` audit event is NOT an oracle: measured,
importlib.import_module raises none although it imports exactly like the statement.)
"""
import builtins
import itertools
import os
import sys

from .. import envs, observe, rt, findings

ID = "C14"
LEVEL = "exploration"
TECHNIQUE = "runtime trace monitor: module-body import log of a vendored package + sys.modules delta + object identity, exec(source) vs eval(translation)"
RULE = ("exhaustive: import statement forms {import a, import a.b, import a.b.c, import a.b as c, import a as c, two and "
        "three modules in one statement, from a import attr (+as), from a import not-yet-imported submodule (+as), "
        "from . import m, from .m import x, from .. import a, from ..p import x, from ..p.x import v, w as z, second "
        "import of an already imported module, import after a from-import of the same package} x placement {module, "
        "function, method, class body, loop, if, closure over the bound name, nested function declaring the name "
        "global, function with the name declared nonlocal} x 8 option combinations. Distinct by (form, placement, "
        "options); non-trivial iff the original imported at least one vendored module (all in-domain cells)."
        ' Plus a vendored package whose __all__ names submodules its __init__ does not import (and the stdlib case concurrent.futures).')
ASSUMPTIONS = ["both executions run with __name__='olpkg.sub.runner', __package__='olpkg.sub' so that relative levels 0-2 resolve",
               "every olpkg* entry is purged from sys.modules and the log reset before each execution"]
EXHAUSTIVE = {"quick": True, "thorough": True}
FLOOR = {"quick": 800, "thorough": 800}
MONITORS = False

FIX = os.path.join(envs.VERIF, "fixtures")

FORMS = {
    'import a': ("import olpkg", ['olpkg']),
    'import a.b': ("import olpkg.a", ['olpkg']),
    'import a.b.c': ("import olpkg.sub.m", ['olpkg']),
    'import a.b as c': ("import olpkg.sub.m as c", ['c']),
    'import a as c': ("import olpkg as c", ['c']),
    'import two': ("import olpkg.a, olpkg.sub.m as q", ['olpkg', 'q']),
    'import three': ("import olpkg.p2.x as x1, olpkg.a as a1, olpkg.sub as s1", ['x1', 'a1', 's1']),
    'import same twice in one': ("import olpkg.a, olpkg.a as a2, olpkg.sub.n", ['olpkg', 'a2']),
    'from a import attr': ("from olpkg.a import val", ['val']),
    'from a import attr as': ("from olpkg.a import val as v2, other", ['v2', 'other']),
    'from a import submodule': ("from olpkg.sub import n", ['n']),
    'from a import submodule as': ("from olpkg.sub import n as nn, m", ['nn', 'm']),
    'from a import pkg attr and submodule': ("from olpkg import val, a, p2 as pp", ['val', 'a', 'pp']),
    'from . import m': ("from . import m", ['m']),
    'from . import m as': ("from . import n as n3", ['n3']),
    'from .m import x': ("from .m import val as rv", ['rv']),
    'from .. import a': ("from .. import a", ['a']),
    'from ..p2 import x': ("from ..p2 import x", ['x']),
    'from ..p2.x import val': ("from ..p2.x import val, other as o2", ['val', 'o2']),
    'import twice': ("import olpkg.a\nimport olpkg.a as again", ['olpkg', 'again']),
    'from then import': ("from olpkg.sub import m\nimport olpkg.sub.n\nimport olpkg", ['m', 'olpkg']),
    'import then attribute': ("import olpkg.sub.m\nsm = olpkg.sub.m.val", ['olpkg', 'sm']),
    'from pkg import subpackage': ("from olpkg import sub, p2 as second", ['sub', 'second']),
    'from . import two': ("from . import m, n as n4", ['m', 'n4']),
    'from .. import two': ("from .. import a, p2 as pp2, sub", ['a', 'pp2', 'sub']),
    'import then deeper': ("import olpkg\nimport olpkg.sub.n\nnv = olpkg.sub.n.val", ['olpkg', 'nv']),
    'attribute shadows submodule': ("from olpkg.amb import x", ['x']),
    'attribute shadows submodule after import': ("import olpkg.amb.x\nfrom olpkg.amb import x as ax\nimport olpkg.amb.x as mx", ['olpkg', 'ax', 'mx']),
    'module that imports a sibling': ("from olpkg.amb import y\nimport olpkg.amb.y as y2", ['y', 'y2']),
    'import in two steps same alias': ("import olpkg.a as z\nimport olpkg.sub.m as z", ['z']),
    'from import same name twice': ("from olpkg.a import val\nfrom olpkg.sub.m import val", ['val']),
    'two from-imports same package new submodule': ("from olpkg.sub import m\nfrom olpkg.sub import n", ['m', 'n']),
    'two from-imports same module attr then submodule': ("from olpkg import val\nfrom olpkg import a, p2 as q2", ['val', 'a', 'q2']),
    'from-import in a branch not taken then again': ("if 0:\n    from olpkg.a import val\nfrom olpkg.a import other", ['other']),
    'from-import in a branch taken then again': ("if 1:\n    from olpkg.sub import m\nelse:\n    from olpkg.sub import n\nfrom olpkg.sub import n as n2", ['m', 'n2']),
    'two relative from-imports': ("from . import m\nfrom . import n\nfrom .. import a\nfrom .. import p2", ['m', 'n', 'a', 'p2']),
    'from-import three times same module': ("from olpkg.a import val\nfrom olpkg.a import other\nfrom olpkg.a import val as v3", ['val', 'other', 'v3']),
    'import and from-import interleaved': ("import olpkg.sub\nfrom olpkg.sub import m\nimport olpkg.sub.n as nn\nfrom olpkg.sub import n", ['olpkg', 'm', 'nn', 'n']),
    'alias equals top-level package': ("import olpkg.sub as olpkg", ['olpkg']),
    'alias equals top-level package deep': ("import olpkg.a, olpkg.sub.m as olpkg", ['olpkg']),
    'alias equals a middle component': ("import olpkg.sub.m as sub\nimport olpkg.p2.x as p2", ['sub', 'p2']),
    'alias equals the leaf': ("import olpkg.a as a, olpkg.sub.n as n", ['a', 'n']),
    'from-import alias equals the package': ("from olpkg import a as olpkg", ['olpkg']),
    'from-import alias equals another imported name': ("from olpkg.a import val as other, other as val", ['other', 'val']),
    'from-import submodules in non-alphabetical order': ("from olpkg.sub import n, m\nfrom olpkg import p2, amb, a", ['n', 'm', 'p2', 'amb', 'a']),
    # a package whose __all__ names submodules its __init__ does not import: nothing but a star import may load them
    'package with __all__, dotted with alias': ("import olpkg.allpkg as ap", ['ap']),
    'package with __all__, dotted without alias': ("import olpkg.allpkg\nap2 = olpkg.allpkg\nhas = sorted(n for n in ('alpha', 'beta') if hasattr(ap2, n))", ['olpkg', 'ap2', 'has']),
    'package with __all__, from-import attribute': ("from olpkg.allpkg import val as av, other as ao", ['av', 'ao']),
    'package with __all__, from-import the package': ("from olpkg import allpkg\nhas = sorted(n for n in ('alpha', 'beta') if hasattr(allpkg, n))", ['allpkg', 'has']),
    'package with __all__, one submodule only': ("import olpkg.allpkg.beta as b\nimport olpkg.allpkg as ap\nhas = sorted(n for n in ('alpha', 'beta') if hasattr(ap, n))", ['b', 'ap', 'has']),
    'stdlib package with __all__ of lazy submodules': ("import concurrent.futures as cf\nimport sys\nlazy = sorted(m for m in sys.modules if m.startswith('concurrent.futures.') and m.rsplit('.', 1)[1] in ('process', 'thread'))", ['cf', 'lazy']),
    'stdlib dotted and alias': ("import os.path as op, os\nfrom os.path import join as j, sep\nimport xml.dom.minidom", ['op', 'os', 'j', 'sep', 'xml']),
    'stdlib mix': ("import os.path, olpkg.a as oa\nfrom os import path as osp, sep", ['os', 'oa', 'osp', 'sep']),
}
PLACES = ['module', 'func', 'method', 'class', 'loop', 'if', 'closure', 'global-decl', 'nonlocal-decl', 'nested-class-in-func']


def place(stmt, names, where):
    show = "print(_desc(" + ", ".join(names) + "))"
    lines = stmt.split('\n')
    ind = lambda n: "".join("    " * n + l + "\n" for l in lines)
    if where == 'module':
        return stmt + "\n" + show + "\n"
    if where == 'func':
        return "def f():\n" + ind(1) + "    " + show + "\nf()\n"
    if where == 'method':
        return "class K:\n    def m(self):\n" + ind(2) + "        " + show + "\nK().m()\n"
    if where == 'class':
        return "class K:\n" + ind(1) + "    " + show + "\n" + "print(sorted(n for n in vars(K) if not n.startswith('__')))\n"
    if where == 'loop':
        return "for _i in range(2):\n" + ind(1) + show + "\n"
    if where == 'if':
        return "if True:\n" + ind(1) + "else:\n    pass\n" + show + "\n"
    if where == 'closure':
        return "def f():\n" + ind(1) + "    def g():\n        return _desc(" + ", ".join(names) + ")\n    print(g())\nf()\n"
    if where == 'global-decl':
        return "def f():\n    global " + ", ".join(names) + "\n" + ind(1) + "f()\n" + show + "\n"
    if where == 'nonlocal-decl':
        return ("def f():\n" + "".join("    %s = None\n" % n for n in names) + "    def g():\n        nonlocal " + ", ".join(names) + "\n"
                + ind(2) + "    g()\n    " + show + "\nf()\n")
    if where == 'nested-class-in-func':
        return "def f():\n    class K:\n" + ind(2) + "        " + show + "\n    return sorted(n for n in vars(K) if not n.startswith('__'))\nprint(f())\n"


def desc(*objs):
    out = []
    for o in objs:
        if type(o).__name__ == 'module':
            out.append('module:' + o.__name__ + (':same' if sys.modules.get(o.__name__) is o else ':STALE'))
        else:
            out.append(repr(o))
    return out


def mkenv():
    """Fresh import state: purge olpkg*, reset the log, namespace of a module inside the package."""
    if FIX not in sys.path:
        sys.path.insert(1, FIX)
    for k in [k for k in sys.modules if k.startswith('olpkg')]:
        del sys.modules[k]
    log = builtins.__dict__.setdefault('_OLLOG', [])
    del log[:]
    ns = {'__name__': 'olpkg.sub.runner', '__package__': 'olpkg.sub', '_desc': desc}
    return ns, _Snapshot(log)


class _Snapshot(list):
    """The 'event log' handed to the differential monitor: import log + sys.modules delta, read lazily."""

    def __init__(self, log):
        super().__init__()
        self._log = log

    def freeze(self):
        self[:] = [("imported", m) for m in self._log] + [("sys.modules", tuple(sorted(k for k in sys.modules if k.startswith('olpkg'))))]


def differential(src, cfg):
    """Like observe.differential but the import log is frozen right after each execution."""
    frozen = []

    def env():
        ns, snap = mkenv()
        frozen.append(snap)
        return ns, snap
    # original
    import contextlib
    import io
    g1, s1 = env()
    b1 = io.StringIO()
    try:
        with contextlib.redirect_stdout(b1):
            exec(compile(src, "<source>", "exec"), g1)
    except BaseException as e:
        return observe.Outcome("ood:src-raise:" + type(e).__name__, str(e)[:80]), None
    s1.freeze()
    out, err = observe.convert(src, cfg)
    if err:
        return observe.Outcome(err), None
    co, err = observe.compile_out(out)
    if err:
        return observe.Outcome(err, out=out), None
    g2, s2 = env()
    b2 = io.StringIO()
    try:
        with contextlib.redirect_stdout(b2):
            eval(co, g2)
    except BaseException as e:
        s2.freeze()
        return observe.Outcome("eval-raise:" + type(e).__name__, {"msg": str(e)[:100], "log": list(s2)}, out=out), list(s1)
    s2.freeze()
    if list(s1) != list(s2):
        return observe.Outcome("trace-diff:import-log", {"expected": list(s1), "observed": list(s2)}, out=out), list(s1)
    if b1.getvalue() != b2.getvalue():
        return observe.Outcome("stdout-diff", {"expected": b1.getvalue()[-300:], "observed": b2.getvalue()[-300:]}, out=out), list(s1)
    r = observe.compare_globals(g1, g2, {"_desc"})
    if r:
        return observe.Outcome(r[0], r[1], out=out), list(s1)
    return observe.Outcome("ok", out=out), list(s1)


def run_case(rec, fname, where, cfg):
    stmt, names = FORMS[fname]
    src = place(stmt, names, where)
    r, to = rt.guarded(lambda: differential(src, cfg), 30)
    if to:
        rec.inconc("case-timeout")
        return
    o, log = r
    if o.ood:
        rec.inconc("original-raises")
        rec.note("out-of-domain cells", "%s@%s:%s" % (fname, where, o.status))
        return
    case = {"form": fname, "place": where, "cfg": list(cfg), "src": src}
    if o.ok:
        rec.ok((fname, where, cfg), nontrivial=bool(log and len(log) > 1))
        rec.count("import-events-compared", len(log or []))
        if len(rec.samples) < 2 and where == "method" and fname in ("from ..p2.x import val", "import two"):
            rec.sample({"form": fname, "place": where, "options": cfg, "source": src, "import_log": [list(map(str, e)) for e in log]})
        return
    for kf in findings.for_prop(ID):
        for pat in kf.get("cells", []):
            if (pat[0] in ("*", fname)) and (pat[1] in ("*", where)) and any(o.status.startswith(s) for s in kf.get("symptoms", [])):
                rec.known_finding(kf["id"])
                return
    rec.violation(o.status, case, o.detail)


def run_shard(rec):
    idx = 0
    for fname, where, cfg in itertools.product(FORMS, PLACES, envs.CFGS):
        idx += 1
        if idx % rec.nshards != rec.shard:
            continue
        run_case(rec, fname, where, cfg)


def replay(case, rec):
    run_case(rec, case["form"], case["place"], tuple(case["cfg"]))


def run_witness(kf):
    w = kf["witness"]
    rec = rt.Recorder(ID, "witness", 0, 0, 1)
    run_case(rec, w["form"], w["place"], tuple(w.get("cfg", envs.DEFAULT_CFG)))
    if rec.known or rec.nviol:
        return True, "%s [cell %s@%s]" % (kf["mechanism"], w["form"], w["place"])
    return False, "witness passes"
