"""C08 - unsupported constructs are rejected, never silently dropped or mistranslated.

M1: icontract post-condition on the real convert_code_string - a conversion that *returns* must not
have had an unsupported construct (independent AST walk) or one of the four illegal placements in
its source. Workload: every unsupported construct injected at every statement / expression position
of supported host programs.
"""
import ast
import random

from .. import envs, rt, findings, contracts, unsupported
from ..gen import inject, progs

ID = "C08"
LEVEL = "exploration"
TECHNIQUE = "runtime contract (icontract post-condition on the real convert_code_string) over construct x position injection; marker-trace monitor (differential event log) for the no-discard clause"
RULE = ("host programs (hand-written position catalogue + seeded generated programs) x every unsupported construct "
        "(statement forms: try/except/finally/except*, raise, with, assert, del, async def/for/with, await, star "
        "import, match, type alias, generator defs; expression forms yield / yield from / await wrapped around every "
        "expression position incl. defaults, decorators, f-string fields, comprehension parts, class bases) x every "
        "statement/expression position of the host (module, function, method, class body, def/class nested in a "
        "loop, loop body, loop else, if/elif/else arms, after an interrupt in the same block); plus illegal "
        "break/continue/return placements and a second star in every target pattern (reference: CPython's compile "
        "refuses). Distinct by (construct, position kind, host, options); every case is non-trivial. Last sentence of the "
        "property (nothing with a run-time effect is discarded): a trace monitor - `mark(n)` before every statement and at "
        "the end of every block of hand-written loop-else / dead-tail idioms and of 1500 (thorough: 6000) generated "
        "clean-pool programs; the marker sequence of the translation must equal the original's.")
ASSUMPTIONS = ["the independent walker (lib/olverif/unsupported.py) defines 'unsupported' exactly as the README list + the four illegal placements",
               "any exception raised by the conversion counts as rejection"]
EXHAUSTIVE = {"quick": False, "thorough": False}
FLOOR = {"quick": 5000, "thorough": 50000}
REQUIRED_MONITORS = ["C08.rejects-unsupported"]
SIZES = {"quick": dict(gen_hosts=8, maxpos=20, mark_gen=1500), "thorough": dict(gen_hosts=90, maxpos=None, mark_gen=6000)}

HOSTS = {
    "positions": '''x = 1
def f(a, b=2):
    c = a + b
    for i in range(3):
        if i == 1:
            continue
        elif i == 2:
            break
        else:
            c += i
    else:
        c -= 1
    while c > 100:
        c -= 1
        if c == 150:
            return c
    else:
        c += 0
    return c
class K:
    y = f(1)
    def m(self, z=[1, 2]):
        for j in z:
            def inner(q=j):
                return q * 2
            class L:
                w = inner()
            if L.w:
                return L.w
        return None
    if y:
        t = 1
    else:
        t = 2
for k in range(2):
    def g():
        return k
    class M:
        n = g()
else:
    x = 2
if x:
    print(f(1), K().m(), x)
''',
    "expressions": '''import math
from os import path as osp
d = {'a': 1}
l = [1, 2, 3]
def deco(fn):
    return fn
@deco
def f(a, b=l[0], *c, k=d['a'], **kw):
    t = (a, b)
    x, (y, *z) = a, [b, 3, 4]
    l[0] += 1
    d['b'] = a if b else c
    s = f'{a!r:>{b}} {math.pi:.2f}'
    q = [i * 2 for i in l if i > 0 for j in (1,) if j]
    g = lambda u, v=1: u + v
    h = {i: j for i, j in d.items()}
    w = (n := 5) + n
    return max(*l, key=lambda e: -e), a < b < 3, not a, l[1:2], x, y, z, s, q, g(1), h, w
class B(dict, metaclass=type):
    v = f(1)
while l[0] < 3:
    l[0] += 1
print(f(1), B.v, osp.basename('a/b'))
''',
}


def host_programs(rec, size):
    for name, src in HOSTS.items():
        yield name, src
    n = 0
    i = 0
    while n < size["gen_hosts"] and i < 10000:
        seed = rec.seed * 7001 + i
        i += 1
        g = progs.Gen(seed)
        g.budget = 10
        src = g.program()
        try:
            compile(src, "<h>", "exec")
        except SyntaxError:
            continue
        n += 1
        yield "gen:%d" % seed, src


def judge(rec, src, cfg, construct, place, host, illegal=False):
    why = unsupported.find(src)
    if why is None:
        rec.count("injection-not-recognised-by-walker")
        return
    if illegal and not unsupported.cpython_refuses(src):
        rec.count("illegal-but-cpython-accepts")
        return
    ol = rt.load_oneliner()
    contracts.MON.drain()

    def call():
        try:
            ol.convert_code_string(src, "<s>", rt.mkcfg(cfg))
            return "returned"
        except rt.CaseTimeout:
            raise
        except BaseException as e:
            return "rejected:" + type(e).__name__
    r, to = rt.guarded(call, 30)
    if to:
        rec.inconc("case-timeout")
        return
    ev = contracts.MON.drain("C08")
    case = {"src": src, "cfg": list(cfg), "construct": construct, "place": place, "host": host}
    if r == "returned" or ev:
        trig = findings.triggered(ID, src=src, cfg=cfg)
        kid = findings.attribute(trig, "returned")
        if kid:
            rec.known_finding(kid)
            return
        rec.violation("returned:" + why, case, ev[:1])
        return
    rec.count(r)
    rec.note("constructs rejected", construct)
    rec.note("position kinds", place)
    rec.ok((construct, place, host, cfg))


# ---------------------------------------------------------------- nothing with a run-time effect is discarded

class _Marker(ast.NodeTransformer):
    """Put `mark(<n>)` before every statement and at the end of every block of the program."""

    def __init__(self):
        self.n = 0

    def _m(self):
        self.n += 1
        return ast.Expr(ast.Call(ast.Name("mark", ast.Load()), [ast.Constant(self.n)], []))

    def _block(self, stmts):
        out = []
        for st in stmts:
            if not isinstance(st, (ast.Global, ast.Nonlocal)):
                out.append(self._m())
            out.append(self.visit(st))
        out.append(self._m())
        return out

    def generic_visit(self, node):
        for f in ("body", "orelse"):
            v = getattr(node, f, None)
            if isinstance(v, list) and v and isinstance(v[0], ast.stmt):
                setattr(node, f, self._block(v))
        return node


def marked(src):
    t = ast.parse(src)
    m = _Marker()
    m.visit(t)
    ast.fix_missing_locations(t)
    return ast.unparse(t), m.n


def mark_env():
    log = []
    return {"__name__": "__main__", "mark": lambda k: log.append(("mark", k))}, log


def judge_marked(rec, name, src, cfg):
    """Every marker that fires in the original fires, in the same order, in the translation."""
    from .. import observe
    try:
        msrc, n = marked(src)
        compile(msrc, "<m>", "exec")
    except (SyntaxError, ValueError, RecursionError):
        rec.count("marker-host-unusable")
        return
    if findings.triggered("C01", src=msrc, cfg=cfg):
        rec.count("marker-host-in-tainted-pool (skipped)")
        return
    o, to = rt.guarded(lambda: observe.differential(msrc, cfg, mkenv=mark_env, keep=True), 30)
    if to:
        rec.inconc("case-timeout")
        return
    if o.ood:
        rec.count("marker-host-out-of-domain")
        return
    case = {"kind": "marked", "name": name, "src": src, "cfg": list(cfg)}
    if not o.ok:
        rec.violation("part-with-run-time-effect-discarded-or-changed:" + o.status, case, o.detail)
        return
    fired = len({e[1] for e in (o.log1 or [])})
    rec.count("marker-programs-held")
    rec.count("markers-placed", n)
    rec.count("markers-fired-in-original-and-translation", fired)
    rec.ok(("marked", msrc, cfg), nontrivial=fired >= 3)


MARK_HOSTS = {
    "search-loop-else-return": """def find(xs, t):
    for i, x in enumerate(xs):
        if x == t:
            break
    else:
        return -1
    found = i * 10
    return found
print(find([1, 2, 3], 2), find([1], 5))
""",
    "leave-two-loops": """out = []
for a in range(3):
    for b in range(3):
        if a * b == 2:
            break
    else:
        continue
    out.append((a, b))
    break
else:
    out.append('none')
print(out)
""",
    "while-else-break-tail": """n = 0
while n < 5:
    n += 1
    k = 0
    while k < n:
        k += 1
        if k == 2:
            break
    else:
        continue
    n += 10
print(n)
""",
    "if-all-branches-interrupt": """def f(x):
    for i in range(4):
        if i == x:
            r = 'hit'
            break
        elif i > 2:
            r = 'big'
            continue
        else:
            continue
        r = 'dead'
    else:
        r = 'else'
    return r
print(f(1), f(9))
""",
    "class-in-loop-with-interrupts": """res = []
for i in range(3):
    class K:
        v = i
        if v == 1:
            w = 'one'
        else:
            w = 'other'
    if K.v == 1:
        res.append(K.w)
        continue
    res.append(K.v)
print(res)
""",
}


def marker_layer(rec, size):
    idx = 0
    hosts = list(HOSTS.items()) + list(MARK_HOSTS.items())
    for i in range(size["mark_gen"]):
        seed = rec.seed * 9176 + 31 * i + 5
        src, feats = progs.generate(seed)
        hosts.append(("gen:%d" % seed, src))
    for name, src in hosts:
        idx += 1
        if idx % rec.nshards != rec.shard:
            continue
        if rec.out_of_budget():
            rec.truncated += 1
            continue
        fixed = name in HOSTS or name in MARK_HOSTS
        cfgs = envs.CFGS if fixed or rec.tier == "thorough" else [envs.CFGS[(idx + rec.seed) % 8], envs.CFGS[(idx + rec.seed + 5) % 8]]
        for cfg in cfgs:
            judge_marked(rec, name, src, cfg)


def run_shard(rec):
    size = SIZES[rec.tier]
    marker_layer(rec, size)
    rng = random.Random(rec.seed * 101 + 7)
    idx = 0
    for hname, hsrc in host_programs(rec, size):
        maxpos = None if hname in HOSTS else size["maxpos"]
        gens = [("stmt", inject.variants_stmt(hsrc, max_positions=maxpos, rng=rng), False),
                ("expr", inject.variants_expr(hsrc, max_positions=(maxpos * 2 if maxpos else None), rng=rng), False),
                ("illegal", inject.variants_illegal(hsrc, max_positions=maxpos, rng=rng), True)]
        for gname, gen, illegal in gens:
            for construct, place, src in gen:
                idx += 1
                if idx % rec.nshards != rec.shard:
                    continue
                if rec.out_of_budget():
                    rec.truncated += 1
                    continue
                cfg = envs.CFGS[(idx // rec.nshards + rec.seed) % 8]
                judge(rec, src, cfg, construct, place, hname, illegal)
                rec.count("injected-" + gname)
                if len(rec.samples) < 2 and idx % 1999 == 0:
                    rec.sample({"construct": construct, "place": place, "host": hname, "source": src[:1200]})
    # supported hosts themselves must convert (sanity of the workload; not a C08 verdict)
    for hname, hsrc in HOSTS.items():
        try:
            rt.load_oneliner().convert_code_string(hsrc)
            rec.count("host-converts")
        except BaseException as e:
            rec.count("host-refused:" + type(e).__name__)


def replay(case, rec):
    if case.get("kind") == "marked":
        return judge_marked(rec, case["name"], case["src"], tuple(case["cfg"]))
    judge(rec, case["src"], tuple(case["cfg"]), case.get("construct"), case.get("place"), case.get("host"))


def run_witness(kf):
    w = kf["witness"]
    ol = rt.load_oneliner()
    try:
        ol.convert_code_string(w["source"])
    except BaseException:
        return False, "witness is rejected"
    return True, "%s [witness converts]" % kf["mechanism"]
