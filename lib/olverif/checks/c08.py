"""C08 - unsupported constructs are rejected, never silently dropped or mistranslated.

M1: icontract post-condition on the real convert_code_string - a conversion that *returns* must not
have had an unsupported construct (independent AST walk) or one of the four illegal placements in
its source. Workload: every unsupported construct injected at every statement / expression position
of supported host programs.
"""
import ast
import random

from .. import envs, rt, findings, contracts, unsupported
from ..gen import inject, progs

ID = "C08"
LEVEL = "exploration"
TECHNIQUE = "runtime contract (icontract post-condition on the real convert_code_string) over construct x position injection"
RULE = ("host programs (hand-written position catalogue + seeded generated programs) x every unsupported construct "
        "(statement forms: try/except/finally/except*, raise, with, assert, del, async def/for/with, await, star "
        "import, match, type alias, generator defs; expression forms yield / yield from / await wrapped around every "
        "expression position incl. defaults, decorators, f-string fields, comprehension parts, class bases) x every "
        "statement/expression position of the host (module, function, method, class body, def/class nested in a "
        "loop, loop body, loop else, if/elif/else arms, after an interrupt in the same block); plus illegal "
        "break/continue/return placements and a second star in every target pattern (reference: CPython's compile "
        "refuses). Distinct by (construct, position kind, host, options); every case is non-trivial.")
ASSUMPTIONS = ["the independent walker (lib/olverif/unsupported.py) defines 'unsupported' exactly as the README list + the four illegal placements",
               "any exception raised by the conversion counts as rejection"]
EXHAUSTIVE = {"quick": False, "thorough": False}
FLOOR = {"quick": 5000, "thorough": 50000}
REQUIRED_MONITORS = ["C08.rejects-unsupported"]
SIZES = {"quick": dict(gen_hosts=8, maxpos=20), "thorough": dict(gen_hosts=150, maxpos=None)}

HOSTS = {
    "positions": '''x = 1
def f(a, b=2):
    c = a + b
    for i in range(3):
        if i == 1:
            continue
        elif i == 2:
            break
        else:
            c += i
    else:
        c -= 1
    while c > 100:
        c -= 1
        if c == 150:
            return c
    else:
        c += 0
    return c
class K:
    y = f(1)
    def m(self, z=[1, 2]):
        for j in z:
            def inner(q=j):
                return q * 2
            class L:
                w = inner()
            if L.w:
                return L.w
        return None
    if y:
        t = 1
    else:
        t = 2
for k in range(2):
    def g():
        return k
    class M:
        n = g()
else:
    x = 2
if x:
    print(f(1), K().m(), x)
''',
    "expressions": '''import math
from os import path as osp
d = {'a': 1}
l = [1, 2, 3]
def deco(fn):
    return fn
@deco
def f(a, b=l[0], *c, k=d['a'], **kw):
    t = (a, b)
    x, (y, *z) = a, [b, 3, 4]
    l[0] += 1
    d['b'] = a if b else c
    s = f'{a!r:>{b}} {math.pi:.2f}'
    q = [i * 2 for i in l if i > 0 for j in (1,) if j]
    g = lambda u, v=1: u + v
    h = {i: j for i, j in d.items()}
    w = (n := 5) + n
    return max(*l, key=lambda e: -e), a < b < 3, not a, l[1:2], x, y, z, s, q, g(1), h, w
class B(dict, metaclass=type):
    v = f(1)
while l[0] < 3:
    l[0] += 1
print(f(1), B.v, osp.basename('a/b'))
''',
}


def host_programs(rec, size):
    for name, src in HOSTS.items():
        yield name, src
    n = 0
    i = 0
    while n < size["gen_hosts"] and i < 10000:
        seed = rec.seed * 7001 + i
        i += 1
        g = progs.Gen(seed)
        g.budget = 10
        src = g.program()
        try:
            compile(src, "<h>", "exec")
        except SyntaxError:
            continue
        n += 1
        yield "gen:%d" % seed, src


def judge(rec, src, cfg, construct, place, host, illegal=False):
    why = unsupported.find(src)
    if why is None:
        rec.count("injection-not-recognised-by-walker")
        return
    if illegal and not unsupported.cpython_refuses(src):
        rec.count("illegal-but-cpython-accepts")
        return
    ol = rt.load_oneliner()
    contracts.MON.drain()

    def call():
        try:
            ol.convert_code_string(src, "<s>", rt.mkcfg(cfg))
            return "returned"
        except rt.CaseTimeout:
            raise
        except BaseException as e:
            return "rejected:" + type(e).__name__
    r, to = rt.guarded(call, 30)
    if to:
        rec.inconc("case-timeout")
        return
    ev = contracts.MON.drain("C08")
    case = {"src": src, "cfg": list(cfg), "construct": construct, "place": place, "host": host}
    if r == "returned" or ev:
        trig = findings.triggered(ID, src=src, cfg=cfg)
        kid = findings.attribute(trig, "returned")
        if kid:
            rec.known_finding(kid)
            return
        rec.violation("returned:" + why, case, ev[:1])
        return
    rec.count(r)
    rec.note("constructs rejected", construct)
    rec.note("position kinds", place)
    rec.ok((construct, place, host, cfg))


def run_shard(rec):
    size = SIZES[rec.tier]
    rng = random.Random(rec.seed * 101 + 7)
    idx = 0
    for hname, hsrc in host_programs(rec, size):
        maxpos = None if hname in HOSTS else size["maxpos"]
        gens = [("stmt", inject.variants_stmt(hsrc, max_positions=maxpos, rng=rng), False),
                ("expr", inject.variants_expr(hsrc, max_positions=(maxpos * 2 if maxpos else None), rng=rng), False),
                ("illegal", inject.variants_illegal(hsrc, max_positions=maxpos, rng=rng), True)]
        for gname, gen, illegal in gens:
            for construct, place, src in gen:
                idx += 1
                if idx % rec.nshards != rec.shard:
                    continue
                if rec.out_of_budget():
                    rec.truncated += 1
                    continue
                cfg = envs.CFGS[(idx // rec.nshards + rec.seed) % 8]
                judge(rec, src, cfg, construct, place, hname, illegal)
                rec.count("injected-" + gname)
                if len(rec.samples) < 2 and idx % 1999 == 0:
                    rec.sample({"construct": construct, "place": place, "host": hname, "source": src[:1200]})
    # supported hosts themselves must convert (sanity of the workload; not a C08 verdict)
    for hname, hsrc in HOSTS.items():
        try:
            rt.load_oneliner().convert_code_string(hsrc)
            rec.count("host-converts")
        except BaseException as e:
            rec.count("host-refused:" + type(e).__name__)


def replay(case, rec):
    judge(rec, case["src"], tuple(case["cfg"]), case.get("construct"), case.get("place"), case.get("host"))


def run_witness(kf):
    w = kf["witness"]
    ol = rt.load_oneliner()
    try:
        ol.convert_code_string(w["source"])
    except BaseException:
        return False, "witness is rejected"
    return True, "%s [witness converts]" % kf["mechanism"]
