"""C16 - the command line writes exactly the API result and validates options.

M2 at the process boundary + an `open` audit-event log produced *inside* the real `python -m oneliner`
process by a sitecustomize on PYTHONPATH (lib/sitehook). With the child's `random` seeded through the
hook the CLI text must be byte-identical to the library call made with the same seed.
"""
import itertools
import json
import os
import random
import shutil
import subprocess
import sys
import tempfile

from .. import envs, observe, rt, findings
from . import c10

ID = "C16"
LEVEL = "exploration"
TECHNIQUE = "runtime monitor at the process boundary: real `python -m oneliner` subprocesses with an in-process audit hook logging open() events; differential against the library call"
RULE = ("programs (ASCII, non-ASCII, empty, no trailing newline, CRLF / CR-only / mixed newlines, BOM, tabs, form feeds and every "
        "str.splitlines() separator raw inside literals, continuation lines, interrupt-heavy control flow, classes, scopes, "
        "imports, 8-40 generated programs) x all 8 option combinations "
        "spelled `-Ck=v` / `-C k=v` / repeated (last wins) / deprecated --unparser alone and combined with -C x {-o, "
        "--output, stdout} x output {absent, pre-existing with sentinel}; error matrix: unknown names (foo, __doc__, "
        "config_names, __class__, empty), malformed (`foo`, `a=b=c`, `=`, `unparser`), illegal values for each option, "
        "missing input file, each with and without -o and with a pre-existing output. Distinct by argument vector; "
        "non-trivial: every case (each is one real subprocess).")
ASSUMPTIONS = ["the audit hook only observes; `random` is seeded in the child only to make texts byte-comparable",
               "a DeprecationWarning on stderr for --unparser is not output"]
EXHAUSTIVE = {"quick": False, "thorough": True}
FLOOR = {"quick": 400, "thorough": 2000}
MONITORS = False
WORKER_TIMEOUT = {"quick": 1500, "thorough": 7200}

PROGRAMS = {
    "ascii": "x = 1\nwhile x < 3:\n    x += 1\nprint('x', x)\n",
    "non-ascii": "s = 'héllo \u4f60\u597d \U0001F600'\nprint(s, len(s))\n",
    "empty": "",
    "no-trailing-newline": "print(1)\nprint(2)",
    "crlf": "a = 1\r\nif a:\r\n    print('crlf')\r\n",
    "tabs": "def f():\n\treturn [i for i in range(3)]\nprint(f())\n",
    "class-and-import": "import math\nclass A:\n    def m(self):\n        return math.floor(2.5)\nprint(A().m())\n",
    "for-break": "for i in range(5):\n    if i == 2:\n        break\nprint(i)\n",
    "fstring-quotes": "d = {'k': 'v\"'}\nprint(f\"{d['k']!r:>8}\")\n",
    "closure": "def f(a, b, c):\n    def g():\n        return a + b + c\n    return g()\nprint(f(1, 2, 3))\n",
    # characters that str.splitlines() treats as line ends but Python's tokenizer does not: raw inside literals / as blank
    "line-separator-chars-in-triple-quoted": "s = '''a\x0cb\x0bc\x1cd\x1de\x1ef\x85g\u2028h\u2029i\nj'''\nprint(ascii(s), len(s))\n",
    "line-separator-chars-in-one-line-literals": "a = 'p\x0cq'\nb = \"r\x0bs\x1ct\"\nc = 'u\x85v\u2028w\u2029x'\nd = f'{a}\x1d{b!r}\x1e'\nprint(ascii(a + b + c + d))\n",
    "formfeed-as-whitespace": "x = 1\n\x0c\nif x:\x0c\n    print('ff', x)\x0c\n# comment \u2028 with separator\nprint('end')\n",
    # lines made only of blanks / tabs inside a literal, and a file that is indented as a whole (the library refuses it)
    "whitespace-only-lines-in-literal": "s = '''first\n    \n\t\n  last \n'''\nprint(len(s), ascii(s))\nif s:\n    t = \"\"\"a\n        \n    b\"\"\"\n    print(ascii(t))\n",
    "uniformly-indented-file": "    x = 1\n    print(x)\n",
    "leading-blank-lines-and-trailing-spaces": "\n\n   \nx = 1   \nprint(x)\t\n   \n",
    "cr-only-newlines": "a = 2\rif a:\r    print('cr', a)\r",
    "mixed-newlines-in-literal": "s = '''l1\r\nl2\rl3\nl4'''\r\nprint(ascii(s))\n",
    "trailing-blank-and-comment": "print('a')\n\n\n# trailing comment without newline",
    "backslash-continuation": "x = 1 + \\\n    2\ns = 'a\\\nb'\nprint(x, s)\n",
    "only-comment": "# nothing here\n",
    "bom": "\ufeffprint('bom')\n",
    # every interrupt in a branch that has a statement before it, with code after the branch
    "jump-after-statement-in-branch": (
        "def f(n):\n    out = []\n    for i in range(n):\n        if i == 1:\n            out.append('c')\n            continue\n"
        "        if i == 3:\n            out.append('b')\n            break\n        out.append(i)\n    else:\n        out.append('else')\n"
        "    if n > 4:\n        out.append('early')\n        return out\n    out.append('late')\n    return out\nprint(f(3), f(6))\n"
        "k = 0\nwhile k < 5:\n    k += 1\n    if k == 2:\n        print('skip', k)\n        continue\n    elif k == 4:\n        print('stop', k)\n        break\n    print('body', k)\nprint(k)\n"),
    "class-props-super": (
        "class A:\n    n = 2\n    def __init__(self, v):\n        self.v = v\n    @property\n    def d(self):\n        return self.v * self.n\n"
        "    @staticmethod\n    def s(x):\n        return x + 1\n    @classmethod\n    def c(cls):\n        return cls.n\n"
        "class B(A):\n    n = 3\n    def __init__(self, v):\n        super().__init__(v + 1)\n    def d2(self):\n        return [self.d + i for i in range(2)]\n"
        "b = B(1)\nprint(b.d, b.d2(), B.s(1), B.c(), A.c())\n"),
    "scopes": (
        "g = 1\ndef outer():\n    x = 0\n    def inc():\n        nonlocal x\n        global g\n        x += 1\n        g += x\n        return x\n"
        "    return [inc() for _ in range(3)], x\nprint(outer(), g)\nt = [(a, b) for a in range(3) if a for b in range(a)]\n"
        "(p, *q), r = [1, 2, 3], 4\nd = {}\nd['k'] = d.get('k', 0) + (w := 5)\nprint(t, p, q, r, d, w)\n"),
    "imports": "import os.path, json as j\nfrom collections import OrderedDict as OD, deque\nprint(os.path.basename('a/b'), j.dumps(OD(a=1)), deque([1]).pop())\n",
}
# a few generated programs (same seeded generator as C01), chosen deterministically
def _generated(n=8):
    from ..gen import progs as _progs
    out = {}
    i = 0
    while len(out) < n and i < 200:
        i += 1
        src, feats = _progs.generate(424200 + i)
        # clean pool only: behaviour of programs that trigger a recorded finding is C01's business
        if len(src) < 2500 and "print(" in src and not any(findings.triggered("C01", src=src, cfg=c) for c in envs.CFGS):
            out["gen:%d" % (424200 + i)] = src
    return out
SENTINEL = b"SENTINEL-DO-NOT-TOUCH\n"


def spellings(cfg, rng):
    """Argument lists that all mean the option combination cfg."""
    u, w, s = cfg
    yield "attached", ["-Cunparser=" + u, "-Cexpr_wrapper=" + w, "-Cif_style=" + s]
    yield "separate", ["-C", "if_style=" + s, "-C", "unparser=" + u, "-C", "expr_wrapper=" + w]
    other = lambda v, vals: [x for x in vals if x != v][0]
    yield "repeated-last-wins", ["-Cunparser=" + other(u, envs.UNPARSERS), "-Cexpr_wrapper=" + other(w, envs.WRAPPERS),
                                 "-Cif_style=" + other(s, envs.IFSTYLES), "-Cif_style=" + s, "-Cexpr_wrapper=" + w, "-Cunparser=" + u]
    yield "deprecated-unparser", ["--unparser", u, "-Cexpr_wrapper=" + w, "-Cif_style=" + s]
    yield "deprecated-overrides", ["-Cunparser=" + other(u, envs.UNPARSERS), "--unparser", u, "-Cexpr_wrapper=" + w, "-Cif_style=" + s]


ERRORS = [
    ("unknown-name", ["-Cfoo=1"]), ("unknown-dunder", ["-C__doc__=x"]), ("unknown-config_names", ["-Cconfig_names=x"]),
    ("unknown-class", ["-C__class__=x"]), ("unknown-empty-name", ["-C=x"]), ("unknown-dict", ["-C__dict__=x"]),
    ("malformed-no-equals", ["-Cfoo"]), ("malformed-two-equals", ["-Ca=b=c"]), ("malformed-only-equals", ["-C="]),
    ("malformed-option-name-only", ["-Cunparser"]), ("malformed-empty", ["-C", ""]),
    ("illegal-unparser", ["-Cunparser=bogus"]), ("illegal-wrapper", ["-Cexpr_wrapper=tuple"]), ("illegal-if-style", ["-Cif_style=IF_EXPR"]),
    ("illegal-empty-value", ["-Cunparser="]), ("illegal-after-legal", ["-Cunparser=oneliner", "-Cif_style=nope"]),
    ("illegal-deprecated", ["--unparser", "bogus"]), ("unknown-after-legal", ["-Cunparser=oneliner", "-Cnope=1"]),
    ("illegal-value-case", ["-Cunparser=Oneliner"]), ("illegal-value-space", ["-Cunparser= oneliner"]),
    # an error must not be hidden by what follows it
    ("illegal-then-legal-same-option", ["-Cif_style=bogus", "-Cif_style=short_circuit"]),
    ("illegal-then-legal-same-option-unparser", ["-C", "unparser=bogus", "-C", "unparser=oneliner"]),
    ("illegal-then-deprecated-legal", ["-Cunparser=bogus", "--unparser", "oneliner"]),
    ("illegal-wrapper-then-legal", ["-Cexpr_wrapper=x", "-Cexpr_wrapper=list", "-Cexpr_wrapper=chain_call"]),
    ("unknown-then-legal", ["-Cnope=1", "-Cunparser=oneliner"]),
    ("malformed-then-legal", ["-Cunparser", "-Cunparser=oneliner"]),
    ("legal-illegal-legal", ["-Cif_style=if_expr", "-Cif_style=nope", "-Cif_style=if_expr"]),
    ("illegal-deprecated-then-legal-C", ["--unparser", "oneliner", "-Cunparser=bogus", "-Cunparser=oneliner"]),
    ("two-unknown", ["-Ca=1", "-Cb=2"]),
    # a legal word with white space / a line end around it is not a legal value (nor a legal name)
    ("illegal-value-trailing-newline", ["-Cunparser=oneliner\n"]), ("illegal-value-trailing-newline-separate", ["-C", "if_style=short_circuit\n"]),
    ("illegal-value-trailing-crlf", ["-Cexpr_wrapper=list\r\n"]), ("illegal-value-leading-newline", ["-C", "unparser=\noneliner"]),
    ("illegal-value-trailing-space", ["-Cunparser=oneliner "]), ("illegal-value-trailing-tab", ["-C", "expr_wrapper=list\t"]),
    ("unknown-name-trailing-newline", ["-C", "unparser\n=oneliner"]), ("unknown-name-leading-space", ["-C", " unparser=oneliner"]),
    ("illegal-whole-argument-leading-newline", ["-C", "\nunparser=oneliner"]), ("illegal-value-newline-then-legal", ["-Cunparser=oneliner\n", "-Cunparser=oneliner"]),
    ("illegal-value-other-option-word", ["-Cunparser=list"]), ("illegal-value-prefix", ["-Cunparser=onelin"]), ("illegal-value-suffix", ["-Cif_style=if_expr2"]),
]


def run_cli(args, workdir, seed=None, py=None):
    log = os.path.join(workdir, "audit-%d.log" % random.getrandbits(40))
    env = dict(os.environ)
    env["PYTHONPATH"] = os.pathsep.join([os.path.join(envs.LIB, "sitehook"), envs.REPO])
    env["PYTHONDONTWRITEBYTECODE"] = "1"
    env["OLVERIF_AUDIT_LOG"] = log
    env["PYTHONIOENCODING"] = "utf-8"
    env["PYTHONWARNINGS"] = "ignore"
    if seed is not None:
        env["OLVERIF_RANDOM_SEED"] = str(seed)
    p = subprocess.run([py or sys.executable, "-m", "oneliner"] + args, capture_output=True, env=env, cwd=workdir, timeout=120)
    opens = []
    try:
        for l in open(log):
            parts = l.rstrip("\n").split("\t")
            if parts[0] == "open":
                opens.append((parts[1], parts[2]))
    except FileNotFoundError:
        pass
    return p, opens


def library_text(src, cfg, seed):
    ol = rt.load_oneliner()
    random.seed(seed)
    try:
        return ol.convert_code_string(src, "<string>", rt.mkcfg(cfg)), None
    except Exception as e:
        return None, type(e).__name__
    finally:
        random.seed()


def check_success(rec, pname, src, cfg, spname, sparg, outmode, preexisting, workdir, seed):
    infile = os.path.join(workdir, "in-%s.py" % pname)
    with open(infile, "wb") as f:
        f.write(src.encode("utf8"))
    out = os.path.join(workdir, "out-%d.txt" % random.getrandbits(40))
    if preexisting:
        with open(out, "wb") as f:
            f.write(SENTINEL + b"x" * 5000)
    args = list(sparg) + [infile]
    if outmode == "-o":
        args = ["-o", out] + args
    elif outmode == "--output":
        args = args + ["--output", out]
    case = {"kind": "success", "program": pname, "cfg": list(cfg), "spelling": spname, "args": [a if a != infile and a != out else ("IN" if a == infile else "OUT") for a in args],
            "outmode": outmode, "preexisting": preexisting, "src": src}
    # the file is read in text mode with universal newlines: the library gets what open().read() gives
    with open(infile, "r", encoding="utf8") as f:
        as_read = f.read()
    want, err = library_text(as_read, cfg, seed)
    p, opens = run_cli(args, workdir, seed=seed)
    rec.count("subprocesses")
    if err:
        if p.returncode == 0:
            rec.violation("cli-succeeds-where-library-raises", case, {"library": err})
        else:
            rec.ok(case["args"] + [pname], nontrivial=True)
        return
    if p.returncode != 0:
        rec.violation("cli-failed", case, {"rc": p.returncode, "stderr": p.stderr.decode("utf8", "replace")[-400:]})
        return
    if outmode == "stdout":
        got = p.stdout.decode("utf8")
        if got != want + "\n":
            sym = "stdout-differs-from-library" if c10.normalise(got.rstrip("\n")) != c10.normalise(want) else "stdout-differs-only-in-temporaries-despite-seeding"
            rec.violation(sym, case, {"expected": want[:300], "observed": got[:300], "len": [len(want), len(got)]})
            return
    else:
        if p.stdout.strip():
            rec.violation("stdout-not-empty-with-output-file", case, {"stdout": p.stdout.decode("utf8", "replace")[:200]})
            return
        try:
            got = open(out, "rb").read()
        except FileNotFoundError:
            rec.violation("output-file-missing", case, None)
            return
        if got != want.encode("utf8"):
            rec.violation("file-differs-from-library", case, {"expected": want[:300], "observed": got.decode("utf8", "replace")[:300], "len": [len(want.encode('utf8')), len(got)]})
            return
        writes = [o for o in opens if o[0] == repr(out) and "w" in o[1]]
        reads_first = [i for i, o in enumerate(opens) if o[0] == repr(infile)]
        wi = [i for i, o in enumerate(opens) if o[0] == repr(out)]
        if not writes or not reads_first or (wi and reads_first[0] > wi[0]):
            rec.violation("audit-log-order", case, {"opens": opens[-6:]})
            return
    # the text evaluates like the script (C01 oracle on the CLI's own output)
    o = observe.differential(as_read, cfg, pre_converted=(got.decode("utf8") if isinstance(got, bytes) else got.rstrip("\n"), None))
    if not (o.ok or o.ood):
        rec.violation("cli-output-behaves-differently:" + o.status, case, o.detail)
        return
    rec.ok(case["args"] + [pname], nontrivial=True)


def check_error(rec, ename, eargs, outmode, preexisting, workdir):
    infile = os.path.join(workdir, "in-err.py")
    with open(infile, "w") as f:
        f.write(PROGRAMS["ascii"])
    out = os.path.join(workdir, "out-%d.txt" % random.getrandbits(40))
    if preexisting:
        with open(out, "wb") as f:
            f.write(SENTINEL)
        st0 = os.stat(out)
    args = list(eargs) + [infile]
    if outmode != "stdout":
        args += [outmode, out]
    case = {"kind": "error", "error": ename, "args": [a if a not in (infile, out) else ("IN" if a == infile else "OUT") for a in args], "preexisting": preexisting}
    p, opens = run_cli(args, workdir)
    rec.count("subprocesses")
    if p.returncode == 0:
        rec.violation("bad-option-accepted", case, {"stdout": p.stdout.decode("utf8", "replace")[:200]})
        return
    if outmode != "stdout":
        if any(o[0] == repr(out) for o in opens):
            rec.violation("output-opened-before-validation", case, {"opens": opens[-5:]})
            return
        if preexisting:
            st1 = os.stat(out)
            if open(out, "rb").read() != SENTINEL or st1.st_mtime_ns != st0.st_mtime_ns:
                rec.violation("existing-output-touched", case, None)
                return
        elif os.path.exists(out):
            rec.violation("output-created-despite-error", case, None)
            return
    if p.stdout.strip():
        rec.violation("stdout-output-despite-error", case, {"stdout": p.stdout.decode("utf8", "replace")[:200]})
        return
    rec.ok(case["args"], nontrivial=True)


def all_cases(tier, seed):
    rng = random.Random(seed + 5)
    progs = list(PROGRAMS.items()) + list(_generated(8 if tier == "quick" else 40).items())
    i = 0
    for (pname, src), cfg in itertools.product(progs, envs.CFGS):
        for spname, sparg in spellings(cfg, rng):
            for outmode in ("-o", "--output", "stdout"):
                for pre in (False, True):
                    if outmode == "stdout" and pre:
                        continue
                    i += 1
                    # quick: a hash-selected fifth of the product (a stride would alias with the loop structure)
                    if tier == "quick" and int(rt.h8([pname, list(cfg), spname, outmode, pre, seed]), 16) % 5 != 0:
                        continue
                    yield ("success", pname, src, cfg, spname, sparg, outmode, pre)
    for (ename, eargs), outmode, pre in itertools.product(ERRORS, ("-o", "--output", "stdout"), (False, True)):
        if outmode == "stdout" and pre:
            continue
        i += 1
        if tier == "quick" and outmode == "--output" and i % 3:
            continue
        yield ("error", ename, eargs, outmode, pre)
    yield ("missing-input",)


def run_shard(rec):
    work = tempfile.mkdtemp(prefix="olverif-cli-")
    try:
        for idx, c in enumerate(all_cases(rec.tier, rec.seed)):
            if idx % rec.nshards != rec.shard:
                continue
            if rec.out_of_budget():
                rec.truncated += 1
                continue
            if c[0] == "success":
                check_success(rec, *c[1:], workdir=work, seed=1000 + idx)
                if len(rec.samples) < 1:
                    rec.sample({"argv": ["python", "-m", "oneliner"] + list(c[5]) + ["IN", c[6], "OUT"], "program": c[1]})
            elif c[0] == "error":
                check_error(rec, *c[1:], workdir=work)
            else:
                out = os.path.join(work, "never.txt")
                p, opens = run_cli(["-o", out, os.path.join(work, "does-not-exist.py")], work)
                rec.count("subprocesses")
                if p.returncode == 0 or os.path.exists(out):
                    rec.violation("missing-input-created-output", {"kind": "missing-input"}, None)
                else:
                    rec.ok("missing-input")
    finally:
        shutil.rmtree(work, ignore_errors=True)


def replay(case, rec):
    work = tempfile.mkdtemp(prefix="olverif-cli-")
    try:
        if case["kind"] == "success":
            for spname, sparg in spellings(tuple(case["cfg"]), random.Random(0)):
                if spname == case["spelling"]:
                    check_success(rec, case["program"], case["src"], tuple(case["cfg"]), spname, sparg, case["outmode"], case["preexisting"], work, 77)
        elif case["kind"] == "error":
            for ename, eargs in ERRORS:
                if ename == case["error"]:
                    om = "-o" if "-o" in case["args"] else "--output" if "--output" in case["args"] else "stdout"
                    check_error(rec, ename, eargs, om, case["preexisting"], work)
    finally:
        shutil.rmtree(work, ignore_errors=True)


def run_witness(kf):
    return None, "no witness runner"
