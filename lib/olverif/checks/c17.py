"""C17 - long and deeply nested programs convert without exhausting recursion.

M5 resource monitor: one child process per (family, options, N) at the default recursion limit, with
faulthandler; the child records the stage reached (source-compile / source-run / convert /
output-compile / output-eval / compare), the exception type and whether the failing frames are in the
tree under test or in the standard library / compiler.
"""
import json
import os
import subprocess
import sys

from .. import envs, findings

ID = "C17"
LEVEL = "exploration"
TECHNIQUE = "runtime resource monitor: subprocess per size point with faulthandler, stage reached + location of the exhausted recursion"
RULE = ("program families parameterised by N (consecutive assignments, consecutive calls, elif chain, chained binary "
        "operator, chained attribute / call / subscript, nested if / for / while / def / class, nested list display, long "
        "argument list, long target tuple, long string concatenation, deep lambda nesting, long boolean chain, long "
        "comparison chain, many functions, many classes) x N = 2, 4, ..., 1024 (quick) / 16384 (thorough), stopping at the "
        "first size CPython itself refuses for the *source*; x option combinations (default + the clean combination + "
        "single-option changes in quick, all 8 in thorough). A cell (family, options) holds iff every N the interpreter "
        "accepts converts, compiles and evaluates like the original. Distinct by (family, options, N); non-trivial iff "
        "N >= 64."
        " Plus 18 spelling variants of the chain families (sharing the base family's recorded limits) and four families nested through lambda parameter *defaults* (own measured ast.unparse limits).")
ASSUMPTIONS = ["sizes follow a geometric schedule, not every N", "a wall-clock watchdog per child only yields inconclusive",
               "failures listed in KF-size-limits are matched by (family, option dimension, stage, error class, location) and a minimal N per host; failing earlier, elsewhere or inside oneliner frames is a violation"]
EXHAUSTIVE = {"quick": False, "thorough": False}
FLOOR = {"quick": 300, "thorough": 1500}
NEEDS_REPO_IMPORT = False
MONITORS = False
WORKER_TIMEOUT = {"quick": 1500, "thorough": 4 * 3600}

FAM = {
    "stmts": lambda n: "x=0\n" + "x+=1\n" * n + "print(x)\n",
    "calls_stmts": lambda n: "print(1)\n" * n,
    "elif": lambda n: "x=%d\nif x==0:\n    print(0)\n" % (n - 1) + "".join("elif x==%d:\n    print(%d)\n" % (i, i) for i in range(1, n)),
    "binop": lambda n: "print(" + "+".join(["1"] * n) + ")\n",
    "attrchain": lambda n: "class A:\n    pass\na=A()\na.a=a\nprint(a" + ".a" * n + " is a)\n",
    "callchain": lambda n: "def f():\n    return f\nprint(f" + "()" * n + " is f)\n",
    "subscriptchain": lambda n: "l=[]\nl.append(l)\nprint(l" + "[0]" * n + " is l)\n",
    "nested_if": lambda n: "".join("    " * i + "if True:\n" for i in range(n)) + "    " * n + "print(%d)\n" % n,
    "nested_for": lambda n: "".join("    " * i + "for i%d in range(1):\n" % i for i in range(n)) + "    " * n + "print(%d)\n" % n,
    "nested_while": lambda n: "c=[0]*%d\n" % (n + 1) + "".join("    " * i + "while c[%d] < 1:\n" % i + "    " * (i + 1) + "c[%d] += 1\n" % i for i in range(n)) + "    " * n + "print(%d)\n" % n,
    "nested_def": lambda n: "".join("    " * i + "def f%d():\n" % i for i in range(n)) + "    " * n + "print(%d)\n" % n + "".join("    " * i + "f%d()\n" % i for i in range(n - 1, -1, -1)),
    "nested_class": lambda n: "".join("    " * i + "class C%d:\n" % i for i in range(n)) + "    " * n + "print(%d)\n" % n,
    "nested_list": lambda n: "print(len(" + "[" * n + "]" * n + "))\n",
    "long_args": lambda n: "def f(*a):\n    return len(a)\nprint(f(" + ",".join(["1"] * n) + "))\n",
    "long_targets": lambda n: ",".join("v%d" % i for i in range(n)) + ", = range(%d)\nprint(v0, v%d)\n" % (n, n - 1),
    "strconcat": lambda n: "s = " + " ".join(["'a'"] * n) + "\nprint(len(s))\n",
    "nested_lambda": lambda n: "f = " + "lambda: " * n + "1\nprint(f" + "()" * n + ")\n",
    "boolchain": lambda n: "print(" + " and ".join(["1"] * n) + ")\n",
    "comparechain": lambda n: "print(" + " < ".join(str(i) for i in range(n + 1)) + ")\n",
    "many_defs": lambda n: "".join("def f%d(a, b=%d):\n    return a + b\n" % (i, i) for i in range(n)) + "print(f%d(1))\n" % (n - 1),
    "many_classes": lambda n: "".join("class C%d:\n    x = %d\n    def m(self):\n        return self.x\n" % (i, i) for i in range(n)) + "print(C%d().m())\n" % (n - 1),
    "nested_parens_expr": lambda n: "print(" + "(" * n + "1" + "+1)" * n + ")\n",
    "dict_display": lambda n: "d = {" + ",".join("%d:%d" % (i, i) for i in range(n)) + "}\nprint(len(d))\n",
    "unary_chain": lambda n: "print(" + "-" * n + "1)\n",
    # interrupts inside long chains / long runs of guards (each guard opens a run-time-guarded section)
    "elif_return": lambda n: "def f(x):\n    if x == 0:\n        return 0\n" + "".join("    elif x == %d:\n        return %d\n" % (i, i) for i in range(1, n)) + "    return -1\nprint(f(%d), f(-5))\n" % (n - 1),
    "elif_continue": lambda n: "t = 0\nfor x in [%d, 0, -1]:\n    if x == 0:\n        continue\n" % (n - 1) + "".join("    elif x == %d:\n        continue\n" % i for i in range(1, n)) + "    t += 1\nprint(t)\n",
    "elif_break_in_while": lambda n: "x = %d\nwhile True:\n    if x == 0:\n        break\n" % (n - 1) + "".join("    elif x == %d:\n        break\n" % i for i in range(1, n)) + "    x -= 1\nprint(x)\n",
    "guards_return": lambda n: "def f(x):\n" + "".join("    if x == %d:\n        return %d\n" % (i, i) for i in range(n)) + "    return -1\nprint(f(%d), f(-1))\n" % (n - 1),
    "guards_continue": lambda n: "t = 0\nfor x in [0, %d, -1]:\n" % (n - 1) + "".join("    if x == %d:\n        continue\n" % i for i in range(n)) + "    t += 1\nprint(t)\n",
    "many_returns_flat": lambda n: "def f(x):\n" + "".join("    if x > %d: return %d\n" % (n - i, i) for i in range(n)) + "    return x\nprint(f(0), f(%d))\n" % (n + 1),
    "loop_with_many_breaks": lambda n: "for i in range(%d):\n" % (n + 2) + "".join("    if i == %d + %d: break\n" % (n, k) for k in range(n)) + "print(i)\n",
}
# a long chain in every *context* the expression rewriter treats specially (each has its own pending class / scan)
_CH = lambda n: "+".join(["x"] * n)
_AT = lambda n: "a" + ".a" * n
CTX = {
    "ctx_lambda_body": lambda n: "x=1\nf = lambda: " + _CH(n) + "\nprint(f())\n",
    "ctx_lambda_default": lambda n: "x=1\nf = lambda q=" + _CH(n) + ": q\nprint(f())\n",
    "ctx_def_default": lambda n: "x=1\ndef f(q=" + _CH(n) + ", *, k=" + _CH(n) + "):\n    return q + k\nprint(f())\n",
    "ctx_return": lambda n: "x=1\ndef f():\n    return " + _CH(n) + "\nprint(f())\n",
    "ctx_comprehension": lambda n: "x=1\nprint([" + _CH(n) + " for i in range(2) if " + _CH(n) + "])\n",
    "ctx_genexp_iter": lambda n: "x=1\nprint(sum(i for i in [" + _CH(n) + "]))\n",
    "ctx_fstring_field": lambda n: "x=1\nprint(f'{" + _CH(n) + "}')\n",
    "ctx_class_body": lambda n: "x=1\nclass K:\n    y = " + _CH(n) + "\n    def m(self, q=" + _CH(n) + "):\n        return q\nprint(K.y, K().m())\n",
    "ctx_decorator_arg": lambda n: "x=1\ndef d(v):\n    return lambda fn: fn\n@d(" + _CH(n) + ")\ndef f():\n    return 1\nprint(f())\n",
    "ctx_if_while_test": lambda n: "x=1\nif " + _CH(n) + ":\n    print('t')\nc=[0]\nwhile c[0] < 1 and " + _CH(n) + ":\n    c[0] += 1\nprint(c)\n",
    "ctx_subscript_store_index": lambda n: "x=1\nd={}\nd[" + _CH(n) + "] = " + _CH(n) + "\nd[" + _CH(n) + "] += " + _CH(n) + "\nprint(len(d))\n",
    "ctx_walrus_value": lambda n: "x=1\nprint((w := " + _CH(n) + "), w)\n",
    "ctx_call_kwarg": lambda n: "x=1\ndef f(*a, **k):\n    return len(a) + len(k)\nprint(f(" + _CH(n) + ", *[" + _CH(n) + "], k=" + _CH(n) + "))\n",
    "ctx_nonlocal_attr_chain": lambda n: "class A:\n    pass\ndef o():\n    a = A()\n    a.a = a\n    def i():\n        return " + _AT(n) + " is a\n    return i()\nprint(o())\n",
    "ctx_lambda_in_class_attr_chain": lambda n: "class A:\n    pass\na = A()\na.a = a\nclass K:\n    f = lambda self: " + _AT(n) + " is a\nprint(K().f())\n",
    "ctx_for_iter_and_target": lambda n: "x=1\nfor i in [" + _CH(n) + "]:\n    print(i)\n",
    "ctx_import_free_dict_value": lambda n: "x=1\nd = {'k': " + _CH(n) + ", **{'j': " + _CH(n) + "}}\nprint(sorted(d))\n",
}
FAM.update(CTX)
# the same chain shapes with other *spellings* of the leaves (names ending in digits, underscores, non-ASCII; other
# literal kinds; mixed operators / index forms): redundant brackets that depend on how a leaf is spelled add one
# nesting level per link. Each variant shares the recorded limits of its base family (same tree shape).
_GA = ("class A:\n    def __getattr__(self, k):\n        return self\n    def __call__(self, *a, **k):\n        return self\n"
       "    def __getitem__(self, k):\n        return self\na=A()\n")
_cyc = lambda items, n: "".join(items[i % len(items)] for i in range(n))
_sel = lambda items, n, sep: sep.join(items[i % len(items)] for i in range(n))
VARIANTS = {
    "attrchain_digit_names": ("attrchain", lambda n: _GA + "print(a" + "".join(".p%d" % i for i in range(n)) + " is a)\n"),
    "attrchain_mixed_names": ("attrchain", lambda n: _GA + "print(a" + _cyc([".x", "._", ".p1", ".\u00e9", ".__d__", ".x_2", ".real9"], n) + " is a)\n"),
    "attrchain_on_literals": ("attrchain", lambda n: "print((1)" + _cyc([".real", ".imag", ".numerator", ".denominator"], n) + ")\n"),
    "callchain_with_args": ("callchain", lambda n: _GA + "print(a" + _cyc(["(1)", "(x=2)", "()", "(*[3])", "('s')", "(-1)", "(1.5)"], n) + " is a)\n"),
    "subscriptchain_mixed_indices": ("subscriptchain", lambda n: _GA + "print(a" + _cyc(["[0]", "[-1]", "[1:2]", "['k']", "[1, 2]", "[...]", "[1.5]"], n) + " is a)\n"),
    "mixed_trailers": ("attrchain", lambda n: _GA + "print(a" + _cyc([".p1", "(2)", "[3]", ".q", "()", "[-1]"], n) + " is a)\n"),
    "binop_float_and_negative_leaves": ("binop", lambda n: "print(" + _sel(["1.5", "-1", "2e3", "0x1f", "1j", "(-2)", "True", "1_000"], n, "+") + ")\n"),
    "binop_names_ending_in_digits": ("binop", lambda n: "x1=1\ny_2=2\nprint(" + _sel(["x1", "y_2"], n, "+") + ")\n"),
    "binop_same_precedence_mixed": ("binop", lambda n: "print(1" + _cyc(["+2", "-3", "+4.5", "-6"], n - 1) + ")\n"),
    "binop_mul_level_mixed": ("binop", lambda n: "print(1" + _cyc(["*2", "//3", "%7", "*5"], n - 1) + ")\n"),
    "binop_bitwise_mixed": ("binop", lambda n: "print(1" + _cyc(["|2", "|4", "|8"], n - 1) + ", 1" + _cyc(["^2", "^4"], n - 1) + ")\n"),
    "binop_string_leaves": ("binop", lambda n: "print(len(" + _sel(["'a'", '"b"', "'\\n'", "f'{1}'", "'\u00e9'"], n, "+") + "))\n"),
    "boolchain_or_and_mixed": ("boolchain", lambda n: "print(" + " or ".join("0 and 1" for _ in range(max(1, n // 2))) + ")\n"),
    "unary_chain_mixed": ("unary_chain", lambda n: "print(" + _cyc(["-", "+", "~"], n) + "1)\n"),
    "not_chain": ("unary_chain", lambda n: "print(" + "not " * n + "1)\n"),
    "comparechain_mixed_ops": ("comparechain", lambda n: "print(0" + _cyc([" < 1", " <= 1", " != 2", " == 2", " >= 1", " > 0"], n) + ")\n"),
    "strconcat_mixed_quotes": ("strconcat", lambda n: "s = " + _sel(["'a'", '"b"', "'''c'''", "'\\''"], n, " ") + "\nprint(len(s))\n"),
    "elif_names_ending_in_digits": ("elif", lambda n: "x1=%d\nif x1==0:\n    print(0)\n" % (n - 1) + "".join("elif x1==%d:\n    y%d = %d\n    print(y%d)\n" % (i, i, i, i) for i in range(1, n))),
}
def _lam_defaults(n, star=""):
    inner = "1"
    for i in reversed(range(n)):
        inner = "lambda %sq%d=%s: q%d" % (star, i, inner, i)
    return inner


# lambdas nested through their parameter *defaults* (the default of a lambda is converted in the enclosing scope, by another
# path than its body), alone and started from a def
VARIANTS.update({
    "nested_lambda_defaults": ("nested_lambda", lambda n: "f = " + _lam_defaults(n) + "\nprint(f" + "()" * n + ")\n"),
    "nested_lambda_kwonly_defaults": ("nested_lambda", lambda n: "f = " + _lam_defaults(n, "*, ") + "\nprint(f" + "()" * n + ")\n"),
    "def_default_lambda_chain": ("nested_lambda", lambda n: "def f(a=" + _lam_defaults(n) + ", *, k=" + _lam_defaults(n) + "):\n    return a, k\nprint(f()[0]" + "()" * n + ", f()[1]" + "()" * n + ")\n"),
    "lambda_default_then_body_alternating": ("nested_lambda", lambda n: "f = " + "".join("lambda a%d=lambda: " % i for i in range(n)) + "1" + "".join(": a%d" % i for i in reversed(range(n))) + "\nprint(f" + "()" * (2 * n) + ")\n"),
})
LIMITS_AS = {}
OWN_LIMITS = {"nested_lambda_defaults", "nested_lambda_kwonly_defaults", "def_default_lambda_chain", "lambda_default_then_body_alternating"}
for _k, (_base, _f) in VARIANTS.items():
    FAM[_k] = _f
    if _k not in OWN_LIMITS:      # measured with tools/measure_limits.py: ast.unparse needs more frames per level there
        LIMITS_AS[_k] = _base
CLEAN = ("oneliner", "list", "if_expr")
QUICK_CFGS = [envs.DEFAULT_CFG, CLEAN, ("oneliner", "chain_call", "if_expr"), ("ast.unparse", "list", "if_expr"),
              ("oneliner", "list", "short_circuit"), ("ast.unparse", "chain_call", "short_circuit")]
CHILD = os.path.join(envs.LIB, "olverif", "sizechild.py")


def schedule(tier):
    top = 10 if tier == "quick" else 14
    return [2 ** k for k in range(1, top + 1)]


def run_point(src, cfg, py=None, profile=False, timeout=600):
    try:
        p = subprocess.run([py or sys.executable, "-X", "faulthandler", CHILD],
                           input=json.dumps({"src": src, "cfg": list(cfg), "repo": envs.REPO, "profile": profile}),
                           capture_output=True, text=True, timeout=timeout, env=dict(os.environ, PYTHONDONTWRITEBYTECODE="1"))
    except subprocess.TimeoutExpired:
        return {"stage": "watchdog"}
    if p.returncode != 0 or not p.stdout.strip():
        return {"stage": "crash", "rc": p.returncode, "stderr": p.stderr[-600:]}
    try:
        return json.loads(p.stdout.strip().splitlines()[-1])
    except ValueError:
        return {"stage": "crash", "rc": p.returncode, "stderr": (p.stdout + p.stderr)[-600:]}


def known_limit(fam, cfg, n, r, host):
    """Is this failing point one of the recorded size limits? -> finding id or None."""
    kf = findings.by_id("KF-size-limits")
    if not kf:
        return None
    e = kf.get("limits", {}).get(LIMITS_AS.get(fam, fam) + "|" + ",".join(cfg), {}).get(host)
    if not e:
        return None
    loc = r.get("where") or {}
    in_repo = loc.get("repo_frames", 0)
    top = [f for f, _ in loc.get("top_files", [])]
    if r.get("stage") != e["stage"] or r.get("error") != e["error"] or n < e["min_n"]:
        return None
    if e["error"] == "SyntaxError" and "too many nested parentheses" not in (r.get("msg") or ""):
        return None
    if e["location"] == "stdlib-ast" and not (top and top[0] == "ast.py" and in_repo <= 6):
        return None
    if e["location"] == "compiler" and in_repo > 0:
        return None
    return kf["id"]


def jobs(tier, seed):
    from ..driver import NCPU
    out = [{"host": "3.12", "shard": i, "nshards": NCPU, "args": {}} for i in range(NCPU)]
    if tier == "thorough":
        for h in ("3.10", "3.11", "3.13"):
            out += [{"host": h, "shard": i, "nshards": 8, "args": {"other_host": True}} for i in range(8)]
    return out


def run_shard(rec):
    host = "%d.%d" % sys.version_info[:2]
    cfgs = QUICK_CFGS if rec.tier == "quick" or rec.args.get("other_host") else envs.CFGS
    idx = 0
    for fam in FAM:
        for cfg in cfgs:
            idx += 1
            if idx % rec.nshards != rec.shard:
                continue
            failed_known = False
            bisected = False
            extra = []
            sched = schedule(rec.tier)
            k = 0
            while k < len(sched) or extra:
                if k < len(sched):
                    n = sched[k]
                    k += 1
                else:
                    n = extra.pop(0)
                    k = len(sched)
                if rec.out_of_budget():
                    rec.truncated += 1
                    break
                src = FAM[fam](n)
                r = run_point(src, cfg, profile=(n <= 256))
                case = {"family": fam, "cfg": list(cfg), "n": n, "host": host}
                st = r.get("stage")
                if st in ("source-compile", "source-run"):
                    rec.count("source-refused-by-cpython")
                    rec.note("largest N stopped by CPython itself", "%s@%d:%s" % (fam, n, r.get("source_error", "")[:40]))
                    # bisection: the largest size CPython still accepts for the *source* lies between the last
                    # size that was run and n - it must convert too
                    lo, hi = n // 2, n
                    if lo >= 2 and not failed_known and not bisected:
                        bisected = True
                        while hi - lo > 1:
                            mid = (lo + hi) // 2
                            try:
                                compile(FAM[fam](mid), "<s>", "exec")
                                lo = mid
                            except (SyntaxError, ValueError, RecursionError, MemoryError, OverflowError):
                                hi = mid
                        if lo > n // 2:
                            extra.append(lo)
                    break
                if st == "watchdog":
                    rec.inconc("watchdog")
                    break
                if st == "crash":
                    rec.violation("child-crashed", case, r)
                    break
                if st == "done":
                    rec.ok((fam, cfg, n), nontrivial=n >= 64)
                    rec.count("size-points-held")
                    if "oneliner_frame_depth" in r:
                        rec.note("max oneliner frame depth (evidence)", "%s:%d" % (fam, r["oneliner_frame_depth"]))
                    if len(rec.samples) < 1 and n == 512:
                        rec.sample({"family": fam, "options": cfg, "n": n, "source_chars": len(src), "output_chars": r.get("out_chars"), "stage": st})
                    continue
                if st == "compare":
                    rec.violation("evaluates-differently", case, r)
                    break
                kid = known_limit(fam, cfg, n, r, host)
                if kid:
                    rec.known_finding(kid)
                    rec.note("known limits observed", "%s %s N=%d %s/%s" % (fam, ",".join(cfg), n, st, r.get("error")))
                    failed_known = True
                    break
                rec.violation("%s:%s" % (st, r.get("error")), case, r)
                break


def replay(case, rec):
    r = run_point(FAM[case["family"]](case["n"]), tuple(case["cfg"]))
    host = "%d.%d" % sys.version_info[:2]
    if r.get("stage") == "done":
        rec.ok(case)
    elif known_limit(case["family"], tuple(case["cfg"]), case["n"], r, host):
        rec.known_finding("KF-size-limits")
    else:
        rec.violation("%s:%s" % (r.get("stage"), r.get("error")), case, r)


def run_witness(kf):
    w = kf["witness"]
    r = run_point(FAM[w["family"]](w["n"]), tuple(w["cfg"]))
    if r.get("stage") != "done":
        return True, "%s [witness %s N=%d %s -> %s/%s]" % (kf["mechanism"], w["family"], w["n"], ",".join(w["cfg"]), r.get("stage"), r.get("error"))
    return False, "witness passes"
