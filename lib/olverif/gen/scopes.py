"""Scope-tree programs (C06 workload): every nesting of function/class/lambda/comprehension scopes,
every role the tracked name `x` can play in each scope, with reads logged at every site.

tree node = (kind, role, children) with kind in F(unction) C(lass) L(ambda) G (comprehension).
"""
import random

KINDS = ["F", "C", "L", "G"]
ROLES = {
    "F": ["none", "read", "assign", "aug", "walrus", "param", "paramdef", "fortarget", "comptarget", "defbind", "classbind",
          "importbind", "g_assign", "g_read", "nl_assign", "nl_read",
          # compound roles
          "param_assign", "param_aug", "assign_rebind_after", "late_bind", "param_walrus", "nl_aug", "g_aug", "fortarget_rebind",
          "destructure", "assign_in_branch", "walrus_in_comp", "kwparam_f", "walrus_while_test", "walrus_for_iter",
          # every other parameter kind of a def (captured / rebound by the scopes below)
          "posonlyparam_f", "posonly_assign_f", "varparam_f", "kwvarparam_f", "kwparamdef_f"],
    "C": ["none", "read", "assign", "aug", "fortarget", "comptarget", "defbind", "importbind", "g_assign", "g_read",
          "nl_assign", "nl_read", "preread_assign", "assign_rebind_after", "destructure", "nl_aug", "walrus_while_test", "walrus_for_iter"],
    "L": ["none", "read", "param", "paramdef", "walrus", "walrus_in_comp", "param_walrus_in_comp",
          "kwparam", "kwparamdef", "posonlyparam", "varparam", "kwvarparam"],
    "G": ["none", "read", "comptarget", "walrus", "comptarget_nested_iter", "comptarget_iter_uses", "comptarget_second_iter_uses"],
    "M": ["none", "assign", "aug", "walrus", "fortarget", "comptarget", "defbind", "importbind", "preread_none",
          "assign_rebind_after", "destructure", "walrus_in_comp", "walrus_while_test", "walrus_for_iter"],
}
REDUCED = {"F": ["none", "read", "assign", "param", "nl_assign", "g_assign", "param_assign"],
           "C": ["none", "read", "assign", "nl_assign", "g_assign"],
           "L": ["none", "read", "param"], "G": ["none", "read", "comptarget"],
           "M": ["none", "assign"]}


class _Ids:
    def __init__(self):
        self.n = 0

    def sid(self):
        self.n += 1
        return self.n


def bind_lines(role, sid):
    v = sid * 10
    return {
        "none": [], "read": [], "g_read": ["global x"], "nl_read": ["nonlocal x"],
        "assign": ["x = %d" % v], "preread_assign": ['log(%d,"pre",x)' % sid, "x = %d" % v],
        "aug": ["x = %d" % v, "x += 1"], "walrus": ['log(%d,"w",(x := %d))' % (sid, v)],
        "posonlyparam_f": [], "varparam_f": [], "kwvarparam_f": [], "kwparamdef_f": [], "posonly_assign_f": ["x = (x, %d)" % v],
        "param": [], "paramdef": [], "kwparam_f": [], "kwparam": [], "kwparamdef": [], "posonlyparam": [], "varparam": [], "kwvarparam": [],
        "fortarget": ["for x in [%d]:" % v, '    log(%d,"in",x)' % sid],
        "fortarget_rebind": ["for x in [%d, %d]:" % (v, v + 1), "    x = x + 100", '    log(%d,"in",x)' % sid],
        "comptarget": ['log(%d,"c",[x for x in [%d]])' % (sid, v)],
        "defbind": ["def x():", "    return %d" % v], "classbind": ["class x:", "    pass"],
        "importbind": ["import math as x"],
        "g_assign": ["global x", "x = %d" % v], "nl_assign": ["nonlocal x", "x = %d" % v],
        "g_aug": ["global x", "x += %d" % v], "nl_aug": ["nonlocal x", "x += %d" % v],
        "preread_none": [],
        "param_assign": ["x = x + %d" % v], "param_aug": ["x += %d" % v],
        "param_walrus": ['log(%d,"w",(x := x + %d))' % (sid, v)],
        "assign_rebind_after": ["x = %d" % v], "late_bind": [],
        "destructure": ["(x, _y%d), *_z%d = (%d, 1), 2" % (sid, sid, v)],
        "assign_in_branch": ["if log(%d,'t',1):" % sid, "    x = %d" % v, "else:", "    x = %d" % (v + 1)],
        "walrus_in_comp": ['log(%d,"wc",[(x := %d + _q%d) for _q%d in [0, 1]])' % (sid, v, sid, sid)],
        # assignment expressions in loop headers
        "walrus_while_test": ["_it%d = iter([%d, 0])" % (sid, v), "while (x := next(_it%d)):" % sid, '    log(%d,"wt",x)' % sid],
        "walrus_for_iter": ["for _e%d in (x := [%d, %d]):" % (sid, v, v + 1), '    log(%d,"fi",x)' % sid],
    }[role]


PARAM_ROLES = {"param": "x", "paramdef": "x=x", "param_assign": "x", "param_aug": "x", "param_walrus": "x",
               "param_walrus_in_comp": "x", "kwparam": "*, x", "kwparamdef": "*, x=x", "posonlyparam": "x, /",
               "varparam": "*x", "kwvarparam": "**x", "kwparam_f": "*, x",
               "posonlyparam_f": "x, /, _o=0", "posonly_assign_f": "_o, x, /", "varparam_f": "_o, *x", "kwvarparam_f": "_o=0, **x",
               "kwparamdef_f": "*, x=x"}
CALL_ARGS = {"param": "1", "param_assign": "1", "param_aug": "1", "param_walrus": "1", "param_walrus_in_comp": "1",
             "kwparam": "x=1", "posonlyparam": "1", "varparam": "1, 2", "kwvarparam": "a=1", "kwparam_f": "x=1",
             "posonlyparam_f": "1", "posonly_assign_f": "0, 1", "varparam_f": "0, 1, 2", "kwvarparam_f": "a=1, b=2", "kwparamdef_f": ""}


def reads_after(role):
    return role not in ("none", "late_bind")


def render_scope(kind, role, children, g, indent, name):
    """-> (definition lines, call lines)"""
    sid = g.sid()
    p = "    " * indent
    L = []
    if kind == "F":
        params = PARAM_ROLES.get(role, "")
        L.append("%sdef %s(%s):" % (p, name, params))
        body = list(bind_lines(role, sid))
        if reads_after(role):
            body.append('log(%d,"a",x)' % sid)
        late_calls = []
        for i, (ck, cr, cc) in enumerate(children):
            cl, call = render_scope(ck, cr, cc, g, 0, "%s_%d" % (name, i))
            body += cl
            if role == "late_bind":
                late_calls += call
            else:
                body += call
            if reads_after(role):
                body.append('log(%d,"b%d",x)' % (sid, i))
        if role == "late_bind":
            body.append("x = %d" % (sid * 10))
            body += late_calls
            body.append('log(%d,"late",x)' % sid)
        if role == "assign_rebind_after":
            body.append("x = %d" % (sid * 10 + 5))
            body.append('log(%d,"re",x)' % sid)
            for i, (ck, cr, cc) in enumerate(children):
                if ck in ("F", "L"):
                    pass
        body.append('log(%d,"end",0)' % sid)
        L += [p + "    " + b for b in body]
        arg = CALL_ARGS.get(role, "")
        return L, ["%s%s(%s)" % (p, name, arg)]
    if kind == "C":
        L.append("%sclass %s:" % (p, name))
        body = list(bind_lines(role, sid))
        if reads_after(role):
            body.append('log(%d,"a",x)' % sid)
        for i, (ck, cr, cc) in enumerate(children):
            cl, call = render_scope(ck, cr, cc, g, 0, "%s_%d" % (name, i))
            body += cl
            body += call
            if reads_after(role):
                body.append('log(%d,"b%d",x)' % (sid, i))
        if role == "assign_rebind_after":
            body.append("x = %d" % (sid * 10 + 5))
            body.append('log(%d,"re",x)' % sid)
        body.append('log(%d,"end",0)' % sid)
        L += [p + "    " + b for b in body]
        return L, []
    if kind == "L":
        params = PARAM_ROLES.get(role, "")
        parts = []
        if role == "walrus":
            parts.append('log(%d,"w",(x := %d))' % (sid, sid * 10))
        if role in ("walrus_in_comp", "param_walrus_in_comp"):
            parts.append('log(%d,"wc",[(x := %d + _q%d) for _q%d in [0, 1]])' % (sid, sid * 10, sid, sid))
        if reads_after(role):
            parts.append('log(%d,"a",x)' % sid)
        for i, (ck, cr, cc) in enumerate(children):
            parts.append(render_expr(ck, cr, cc, g))
            if reads_after(role):
                parts.append('log(%d,"b%d",x)' % (sid, i))
        parts.append('log(%d,"end",0)' % sid)
        arg = CALL_ARGS.get(role, "")
        return ["%s%s = lambda %s: [%s]" % (p, name, params, ", ".join(parts))], ["%s%s(%s)" % (p, name, arg)]
    if kind == "G":
        return [], [p + render_expr(kind, role, children, g)]
    raise ValueError(kind)


def render_expr(kind, role, children, g):
    sid = g.sid()
    if kind == "L":
        params = PARAM_ROLES.get(role, "")
        parts = []
        if role == "walrus":
            parts.append('log(%d,"w",(x := %d))' % (sid, sid * 10))
        if role in ("walrus_in_comp", "param_walrus_in_comp"):
            parts.append('log(%d,"wc",[(x := %d + _q%d) for _q%d in [0, 1]])' % (sid, sid * 10, sid, sid))
        if reads_after(role):
            parts.append('log(%d,"a",x)' % sid)
        for i, (ck, cr, cc) in enumerate(children):
            parts.append(render_expr(ck, cr, cc, g))
        parts.append('log(%d,"end",0)' % sid)
        arg = CALL_ARGS.get(role, "")
        return "(lambda %s: [%s])(%s)" % (params, ", ".join(parts), arg)
    if kind == "G":
        parts = []
        if role == "walrus":
            parts.append('log(%d,"w",(x := %d))' % (sid, sid * 10))
        if reads_after(role):
            parts.append('log(%d,"a",x)' % sid)
        for i, (ck, cr, cc) in enumerate(children):
            parts.append(render_expr(ck, cr, cc, g))
        parts.append('log(%d,"end",0)' % sid)
        if role == "comptarget_nested_iter":
            return "[[%s] for t%d in [%d] for x in [t%d + 1] if log(%d,'f',x)]" % (", ".join(parts), sid, sid * 10 + 1, sid, sid)
        if role == "comptarget_iter_uses":
            # the first iterable is evaluated in the enclosing scope: its x is NOT the target
            return "[[%s] for x in [x, %d]]" % (", ".join(parts), sid * 10 + 1)
        if role == "comptarget_second_iter_uses":
            return "[[%s] for t%d in [x] for x in [t%d, x, %d]]" % (", ".join(parts), sid, sid, sid * 10 + 1)
        tgt = "x" if role == "comptarget" else "t%d" % sid
        return "[[%s] for %s in [%d]]" % (", ".join(parts), tgt, sid * 10 + 1)
    raise ValueError(kind)


def child_kinds(parent_kind):
    return KINDS if parent_kind in ("M", "F", "C") else ["L", "G"]


def trees(depth, parent_kind, roles=ROLES, width=1):
    """All subtrees of the given depth bound with up to `width` children per node."""
    for k in child_kinds(parent_kind):
        for r in roles[k]:
            yield (k, r, ())
            if depth > 1:
                subs = list(trees(depth - 1, k, roles, width))
                for c in subs:
                    yield (k, r, (c,))
                if width >= 2 and k in ("F", "C"):
                    # second child: a reader/writer sibling from a small catalogue
                    sib = [("F", "read", ()), ("F", "nl_assign", ()), ("L", "read", ()), ("G", "read", ()), ("F", "assign", ()), ("C", "read", ())]
                    sib = [s for s in sib if not (k == "C" and s[1].startswith("nl_") and False)]
                    for c in subs:
                        for s in sib:
                            yield (k, r, (c, s))
                            yield (k, r, (s, c))


def chains(depth, parent_kind, roles):
    """Only single-child chains of exactly `depth` nodes."""
    for k in child_kinds(parent_kind):
        for r in roles[k]:
            if depth == 1:
                yield (k, r, ())
            else:
                for c in chains(depth - 1, k, roles):
                    yield (k, r, (c,))


def program(mrole, t):
    g = _Ids()
    sid = g.sid()
    L = list(bind_lines(mrole, sid))
    cl, call = render_scope(t[0], t[1], t[2], g, 0, "s")
    L += cl + call
    if mrole == "assign_rebind_after":
        L.append("x = %d" % (sid * 10 + 5))
        L += call
    L.append('log(0,"fin", x if "x" in globals() else None)')
    return "\n".join(L) + "\n"


def path(t):
    s = t[0] + ":" + t[1]
    if t[2]:
        s += ">" + "+".join("(" + path(c) + ")" if len(t[2]) > 1 else path(c) for c in t[2])
    return s


def random_tree(rng, depth, parent_kind, roles=ROLES):
    k = rng.choice(child_kinds(parent_kind))
    r = rng.choice(roles[k])
    kids = ()
    if depth > 1 and rng.random() < 0.85:
        n = 2 if (k in ("F", "C") and rng.random() < 0.4) else 1
        kids = tuple(random_tree(rng, depth - 1, k, roles) for _ in range(n))
    return (k, r, kids)


def mkenv():
    log = []

    def logf(*a):
        a = list(a)
        v = a[-1]
        if callable(v) or isinstance(v, type) or type(v).__name__ == "module":
            a[-1] = type(v).__name__
        log.append(tuple(map(repr, a)))
        return a[-1]
    return {"log": logf, "__name__": "__main__"}, log
