"""Supported-fragment program generator (shared workload of C01, C02, C03, C08, C09, C15).

Seeded, grammar-based, with a typed environment (ints, strings, lists, user functions, classes) so that
programs terminate and do not raise by construction; magnitudes are bounded by construction
(multiplication only by small constants, every list/str that grows in a loop is capped by a slice store).
Programs whose original raises anyway are discarded by the checks (counted as out of domain).

  generate(seed, py38=False, weights=None) -> (source, sorted feature list)
"""
import random
import sys

INT, STR, LIST, DICT, FUNC, CLS, OBJ = 'int', 'str', 'list', 'dict', 'func', 'cls', 'obj'


class Scope:
    def __init__(self, kind, parent=None):
        self.kind = kind              # module | func | class
        self.parent = parent
        self.vars = {}                # name -> type (definitely bound here)
        self.loop_depth = 0
        self.funcs = {}               # name -> (nparams)
        self.classes = {}             # name -> dict(attrs, methods)
        self.declared = set()         # names declared global/nonlocal here
        self.used = set()             # names mentioned so far in this scope (no later global/nonlocal)
        self.protected = set()        # while-loop counters: never a target of generated stores

    def in_func(self):
        s = self
        while s:
            if s.kind == 'func':
                return True
            if s.kind == 'class':
                return False
            s = s.parent
        return False

    def visible(self, tp):
        """names of type tp readable from here (python scoping: skip class scopes unless own)"""
        out = []
        s = self
        first = True
        while s:
            if first or s.kind != 'class':
                out += [n for n, t in s.vars.items() if t == tp]
            first = False
            s = s.parent
        return out

    def nested(self):
        """Scope seen by the body of a lambda / comprehension written here (class members are invisible)."""
        if self.kind != 'class':
            return self
        n = Scope('func', self)
        n.used = self.used
        return n

    def module(self):
        s = self
        while s.parent:
            s = s.parent
        return s


class Gen:
    def __init__(self, seed, py38=False, weights=None):
        self.r = random.Random(seed)
        self.n = 0
        self.lines = []
        self.py38 = py38
        self.budget = self.r.randint(12, 40)
        self.features = set()
        self.weights = weights or {}

    def fresh(self, p='v'):
        self.n += 1
        return f'{p}{self.n}'

    def emit(self, ind, s):
        self.lines.append('    ' * ind + s)

    # ---------------- expressions
    def int_expr(self, sc, d=0):
        r = self.r
        names = sc.visible(INT)
        c = r.random()
        if d > 2 or c < 0.25:
            return str(r.randint(0, 9))
        if c < 0.5 and names:
            n = r.choice(names)
            sc.used.add(n)
            return n
        if c < 0.62:
            op = r.choice(['+', '-', '*', '&', '|', '^'])
            if op == '*':
                return f'({self.int_expr(sc, d+1)} * {r.randint(0, 3)})'
            return f'({self.int_expr(sc, d+1)} {op} {self.int_expr(sc, d+1)})'
        if c < 0.67:
            return f'({self.int_expr(sc, d+1)} // {r.randint(1, 5)})'
        if c < 0.70:
            return f'({self.int_expr(sc, d+1)} % {r.randint(1, 5)})'
        if c < 0.74:
            return f'(-{self.int_expr(sc, d+1)})'
        if c < 0.78:
            ls = sc.visible(LIST)
            if ls:
                self.features.add('subscript-load')
                return f'{r.choice(ls)}[{r.choice([0, -1])}]'
        if c < 0.82:
            ls = sc.visible(LIST)
            if ls:
                return f'len({r.choice(ls)})'
        if c < 0.86:
            self.features.add('ifexp')
            return f'({self.int_expr(sc, d+1)} if {self.bool_expr(sc, d+1)} else {self.int_expr(sc, d+1)})'
        if c < 0.90:
            self.features.add('lambda')
            a = self.fresh('p')
            return f'(lambda {a}, q=2: {a} + q)({self.int_expr(sc, d+1)})'
        if c < 0.94:
            self.features.add('genexp')
            x = self.fresh('g')
            k = r.random()
            if k < 0.25:
                # lone generator argument followed by further arguments: the parentheses are mandatory
                self.features.add('genexp-arg-with-keywords')
                form = r.choice(['max(({g}), default=0)', 'sum(({g}), 1)', 'min(({g}), default=0, key=lambda q: -q)',
                                 'len(sorted(({g}), reverse=True))', 'max(0, *({g}))', 'sum(({g}), **{{}})'])
                return form.format(g=f'{x} * 2 for {x} in {self.list_expr(sc, d+1)}')
            return f'sum({x} * 2 for {x} in {self.list_expr(sc, d+1)})'
        if c < 0.97:
            fs = self.callable_funcs(sc)
            if fs:
                self.features.add('call')
                name, npar = r.choice(fs)
                args = ', '.join(self.int_expr(sc, d+1) for _ in range(npar))
                return f'{name}({args})'
        c2 = r.random()
        if c2 < 0.15:
            self.features.add('dictcomp')
            x = self.fresh('g')
            return f'len({{{x}: {x} * 2 for {x} in {self.list_expr(sc, d+1)}}})'
        if c2 < 0.3:
            self.features.add('setcomp')
            x = self.fresh('g')
            return f'max({{{x} % 3 for {x} in {self.list_expr(sc, d+1)}}} | {{0}})'
        if c2 < 0.45:
            self.features.add('nested-comp')
            x, y = self.fresh('g'), self.fresh('g')
            return f'sum([{x} + {y} for {x} in range(2) for {y} in {self.list_expr(sc.nested(), d+1)} if {y} != {x}])'
        if c2 < 0.6:
            self.features.add('lambda-capture')
            a = self.fresh('p')
            return f'(lambda {a}=({self.int_expr(sc, d+1)}): {a} + {self.int_expr(sc.nested(), d+1)})()'
        if c2 < 0.7:
            self.features.add('star-call')
            return f'max(*{self.list_expr(sc, d+1)}, 0)'
        if c2 < 0.8 and sc.kind != 'class' and d == 0:
            self.features.add('walrus-in-comp')
            x, y = self.fresh('g'), self.fresh('u')
            return f'sum([{y} for {x} in range(3) if ({y} := {x} + 1) > 1])'
        return str(r.randint(10, 99))

    def callable_funcs(self, sc):
        out = []
        s = sc
        first = True
        while s:
            if first or s.kind != 'class':
                out += list(s.funcs.items())
            first = False
            s = s.parent
        return out

    def bool_expr(self, sc, d=0):
        r = self.r
        c = r.random()
        if c < 0.6:
            op = r.choice(['<', '>', '==', '!=', '<=', '>='])
            return f'{self.int_expr(sc, d+1)} {op} {self.int_expr(sc, d+1)}'
        if c < 0.75:
            return f'({self.bool_expr(sc, d+1)} {r.choice(["and", "or"])} {self.bool_expr(sc, d+1)})'
        if c < 0.85:
            return f'(not {self.bool_expr(sc, d+1)})'
        if c < 0.95:
            ls = sc.visible(LIST)
            if ls:
                return f'{self.int_expr(sc, d+1)} in {r.choice(ls)}'
        return f'{self.int_expr(sc, d+1)} < {self.int_expr(sc, d+1)} <= {self.int_expr(sc, d+1)}'

    def list_expr(self, sc, d=0):
        r = self.r
        names = sc.visible(LIST)
        c = r.random()
        if c < 0.35 and names:
            return r.choice(names)
        if c < 0.6 or d > 1:
            return '[' + ', '.join(self.int_expr(sc, d+1) for _ in range(r.randint(1, 4))) + ']'
        if c < 0.75:
            self.features.add('listcomp')
            x = self.fresh('c')
            cond = f' if {x} % 2 == 0' if r.random() < 0.4 else ''
            return f'[{x} + {self.int_expr(sc.nested(), d+1)} for {x} in {self.list_expr(sc, d+1)}{cond}] + [0]'
        if c < 0.85:
            return f'list(range({r.randint(1, 4)}))'
        if c < 0.93 and names:
            return f'{r.choice(names)}[{r.choice(["1:", ":2", "::2", "::-1"])}] + [1]'
        return f'sorted({{{self.int_expr(sc, d+1)}, {self.int_expr(sc, d+1)}}})'

    def str_expr(self, sc, d=0):
        r = self.r
        names = sc.visible(STR)
        c = r.random()
        if c < 0.3 and names:
            return r.choice(names)
        if c < 0.55 or d > 1:
            return repr(r.choice(['a', 'bc', "it's", 'say "hi"', 'x\ty', 'new\nline', '{}', 'é', '', 'C:\\new\\table.txt', 'a\\tb',
                                  '\\', '\\d+\\.', 'nul\x007', 'tab\\', '%s', '\\x41']))
        if c < 0.8:
            self.features.add('fstring')
            spec = r.choice(['', ':>4', ':03d', '!r', '!s', ':{w}'])
            if spec == ':{w}':
                return "f'<{" + self.int_expr(sc, d+1) + ":{" + str(r.randint(1, 5)) + "}}>'"
            return "f'[{" + self.int_expr(sc, d+1) + spec + "}]'"
        if c < 0.86:
            return f'({self.str_expr(sc, d+1)} + {self.str_expr(sc, d+1)})'
        if c < 0.88:
            # string literals inside a replacement field *nested in a format spec* (fill / align characters chosen at run time)
            self.features.add('fstring-spec-field-with-literal')
            w = r.randint(3, 6)
            return ('f"{' + self.int_expr(sc, d+1) + ":{'>' if " + self.bool_expr(sc, d+1) + " else '<'}{" + str(w) + '}}|{' + self.int_expr(sc, d+1)
                    + ":{'0'}{" + str(w) + "}d}|{'x':{'*'}^{" + str(w) + '}}"')
        if c < 0.9:
            self.features.add('fstring-nested-quote')
            return 'f"{ ' + "{'k': " + self.int_expr(sc, d+1) + "}['k']" + '!r:>{' + str(r.randint(1, 4)) + '}}"'
        if c < 0.94:
            return "'%s-%d' % (" + self.str_expr(sc, d+1) + ', ' + self.int_expr(sc, d+1) + ')'
        if c < 0.97:
            return "'-'.join(str(_q) for _q in " + self.list_expr(sc, d+1) + ')'
        return f'str({self.int_expr(sc, d+1)})'

    def expr_of(self, tp, sc):
        return {INT: self.int_expr, STR: self.str_expr, LIST: self.list_expr}[tp](sc)

    # ---------------- statements
    def block(self, sc, ind, depth, n=None):
        n = n or self.r.randint(1, 4)
        for _ in range(n):
            if self.budget <= 0:
                break
            self.stmt(sc, ind, depth)
        if not self.lines or not self.lines[-1].startswith('    ' * ind) or self.lines[-1].rstrip().endswith(':'):
            self.emit(ind, 'pass')

    def target_name(self, sc, tp):
        """existing var of that type in *this* scope (rebinding) or a fresh one"""
        own = [n for n, t in sc.vars.items() if t == tp and n not in sc.declared and n not in sc.protected]
        if own and self.r.random() < 0.5:
            return self.r.choice(own)
        n = self.fresh()
        return n

    def stmt(self, sc, ind, depth):
        r = self.r
        self.budget -= 1
        kinds = ['assign'] * 4 + ['print'] * 3 + ['aug'] * 2 + ['unpack', 'substore', 'if', 'if', 'for', 'for', 'while',
                 'def', 'def', 'class', 'walrus', 'import', 'dictops', 'exprstmt', 'multi', 'swap', 'nestunpack',
                 'attr', 'lambdadef', 'scopechain', 'bareann', 'factory', 'recursion', 'kwcall',
                 'docstring', 'mapfilter', 'forstar', 'augslice', 'methodstate', 'nestedclass', 'lazygen', 'leave2', 'private', 'shadowbuiltins']
        if self.weights:
            kinds += [k for k, w in self.weights.items() for _ in range(w)]
        if sc.loop_depth:
            kinds += ['break', 'continue']
        if sc.kind == 'func':
            kinds += ['return', 'nonlocal', 'global']
        if depth <= 0:
            kinds = [k for k in kinds if k not in ('if', 'for', 'while', 'def', 'class')]
        k = r.choice(kinds)
        getattr(self, 's_' + k)(sc, ind, depth)

    def s_assign(self, sc, ind, depth):
        tp = self.r.choice([INT, INT, INT, STR, LIST])
        e = self.expr_of(tp, sc)
        n = self.target_name(sc, tp)
        if self.r.random() < 0.1 and tp == INT:
            self.features.add('annassign')
            self.emit(ind, f'{n}: int = {e}')
        else:
            self.emit(ind, f'{n} = {e}')
        sc.vars[n] = tp

    def s_multi(self, sc, ind, depth):
        self.features.add('multi-target')
        a, b = self.fresh(), self.fresh()
        self.emit(ind, f'{a} = {b} = {self.int_expr(sc)}')
        sc.vars[a] = sc.vars[b] = INT

    def s_print(self, sc, ind, depth):
        tp = self.r.choice([INT, INT, STR, LIST])
        names = sc.visible(tp)
        if names and self.r.random() < 0.7:
            self.emit(ind, f'print({", ".join(self.r.sample(names, min(len(names), self.r.randint(1, 3))))})')
        else:
            self.emit(ind, f'print({self.expr_of(tp, sc)})')

    def s_aug(self, sc, ind, depth):
        tp = self.r.choice([INT, INT, STR, LIST])
        own = [n for n, t in sc.vars.items() if t == tp and n not in sc.protected]
        if not own:
            return self.s_assign(sc, ind, depth)
        n = self.r.choice(own)
        self.features.add('augassign')
        if tp == INT:
            op = self.r.choice(['+', '-', '*', '&', '|', '^', '//', '%', '<<', '>>'])
            rhs = str(self.r.randint(1, 3)) if op in ('//', '%', '<<', '>>', '*') else self.int_expr(sc)
        elif tp == STR:
            op, rhs = '+', self.str_expr(sc)
        else:
            op, rhs = self.r.choice([('+', self.list_expr(sc)), ('*', '2')])
        self.emit(ind, f'{n} {op}= {rhs}')
        if tp == LIST:
            self.emit(ind, f'{n}[6:] = []')
        elif tp == STR:
            self.emit(ind, f'{n} = {n}[:12]')

    def s_unpack(self, sc, ind, depth):
        self.features.add('destructure')
        r = self.r
        k = r.randint(2, 3)
        names = [self.fresh() for _ in range(k)]
        if r.random() < 0.5:
            star = r.randrange(k)
            src = '[' + ', '.join(self.int_expr(sc) for _ in range(k + r.randint(-1, 2))) + ']'
            tgt = ', '.join(('*' + n if i == star else n) for i, n in enumerate(names))
            self.emit(ind, f'{tgt} = {src}')
            for i, n in enumerate(names):
                sc.vars[n] = LIST if i == star else INT
            # starred list may be empty -> mark unknown emptiness by appending
            self.emit(ind, f'{names[star]}.append(0)')
        else:
            src = ', '.join(self.int_expr(sc) for _ in range(k))
            self.emit(ind, f'{", ".join(names)} = {src}')
            for n in names:
                sc.vars[n] = INT

    def s_substore(self, sc, ind, depth):
        ls = sc.visible(LIST)
        if not ls:
            return self.s_assign(sc, ind, depth)
        self.features.add('subscript-store')
        l = self.r.choice(ls)
        c = self.r.random()
        if c < 0.5:
            self.emit(ind, f'{l}[{self.r.choice([0, -1])}] = {self.int_expr(sc)}')
        elif c < 0.7:
            self.emit(ind, f'{l}[{self.r.choice([0, -1])}] += {self.int_expr(sc)}')
        elif c < 0.85:
            self.emit(ind, f'{l}[{self.r.choice(["1:", ":1", ":"])}] = {self.list_expr(sc)}')
            self.emit(ind, f'{l}[6:] = []')
            self.emit(ind, f'{l}.append(1)')
        else:
            self.emit(ind, f'{l}.append({self.int_expr(sc)})')
            self.emit(ind, f'{l}[6:] = []')
            self.emit(ind, f'{l}.append(1)')

    def s_dictops(self, sc, ind, depth):
        self.features.add('dict')
        d = self.fresh('d')
        self.emit(ind, f"{d} = {{'a': {self.int_expr(sc)}, 'b': {self.int_expr(sc)}}}")
        self.emit(ind, f"{d}['c'] = {self.int_expr(sc)}")
        self.emit(ind, f"{d}['a'] += 1")
        if self.r.random() < 0.5:
            k, v = self.fresh('k'), self.fresh('w')
            self.emit(ind, f"print(sorted(({k}, {v}) for {k}, {v} in {d}.items()))")
        else:
            self.emit(ind, f"print({{**{d}}}, len({d}))")

    def s_exprstmt(self, sc, ind, depth):
        self.emit(ind, self.int_expr(sc))

    def s_walrus(self, sc, ind, depth):
        if sc.kind == 'class':
            return self.s_assign(sc, ind, depth)
        self.features.add('walrus')
        n = self.target_name(sc, INT)
        self.emit(ind, f'print(({n} := {self.int_expr(sc)}) + 1)')
        sc.vars[n] = INT

    def s_import(self, sc, ind, depth):
        self.features.add('import')
        c = self.r.random()
        if c < 0.3:
            self.emit(ind, 'import math')
            self.emit(ind, 'print(math.gcd(12, 18))')
        elif c < 0.5:
            self.emit(ind, 'import os.path as osp')
            self.emit(ind, "print(osp.basename('a/b'))")
        elif c < 0.8:
            a = self.fresh('g')
            self.emit(ind, f'from math import gcd as {a}, floor')
            self.emit(ind, f'print({a}(4, 6), floor(2.5))')
        else:
            self.features.add('import-dotted')
            self.emit(ind, 'import os.path')
            self.emit(ind, "print(os.path.basename('a/b'))")

    def s_swap(self, sc, ind, depth):
        own = [n for n, t in sc.vars.items() if t == INT and n not in sc.declared and n not in sc.protected]
        if len(own) < 2:
            return self.s_assign(sc, ind, depth)
        self.features.add('swap')
        a, b = self.r.sample(own, 2)
        self.emit(ind, f'{a}, {b} = {b}, {a} + 1')

    def s_nestunpack(self, sc, ind, depth):
        self.features.add('nested-destructure')
        a, b, c, d = (self.fresh() for _ in range(4))
        k = self.r.random()
        if k < 0.25:
            # a star *before* a nested pattern, more targets behind it, value longer than the target list
            self.features.add('star-then-nested-then-target')
            self.emit(ind, f'*{d}, ({a}, {b}), {c} = [1, 2, {self.int_expr(sc)}, ({self.int_expr(sc)}, {self.int_expr(sc)}), {self.int_expr(sc)}]')
        elif k < 0.4:
            self.features.add('star-then-nested-then-target')
            e = self.fresh()
            self.emit(ind, f'for *{d}, [{a}, *{e}], {b}, {c} in [(0, 1, [2, 3, 4], 5, {self.int_expr(sc)}), ([6], 7, 8)]:')
            self.emit(ind + 1, f'print({d}, {a}, {e}, {b}, {c})')
        elif k < 0.5:
            self.features.add('star-then-nested-then-target')
            e = self.fresh()
            self.emit(ind, f'{a}, ({b}, *{e}), *{d} = {self.int_expr(sc)}, ({self.int_expr(sc)}, 8, 9), 10, 11')
            self.emit(ind, f'{c} = len({e}) + len({d})')
        elif k < 0.75:
            self.emit(ind, f'({a}, {b}), [{c}, *{d}] = ({self.int_expr(sc)}, {self.int_expr(sc)}), {self.list_expr(sc)} + [5]')
        else:
            self.emit(ind, f'{a}, ({b}, *{d}), {c} = {self.int_expr(sc)}, iter({self.list_expr(sc)} + [7]), {self.int_expr(sc)}')
        sc.vars[a] = sc.vars[b] = sc.vars[c] = INT
        sc.vars[d] = LIST
        self.emit(ind, f'{d}.append(0)')

    def s_attr(self, sc, ind, depth):
        objs = sc.visible(OBJ)
        if not objs:
            return self.s_assign(sc, ind, depth)
        self.features.add('attribute-store')
        o = self.r.choice(objs)
        c = self.r.random()
        if c < 0.4:
            self.emit(ind, f'{o}.x = {self.int_expr(sc)}')
        elif c < 0.7:
            self.emit(ind, f'{o}.x += {self.int_expr(sc)}')
        else:
            self.emit(ind, f'{o}.extra = {o}.y = {self.int_expr(sc)}')
        self.emit(ind, f'print(sorted(vars({o}).items()))')

    def s_lambdadef(self, sc, ind, depth):
        self.features.add('lambda-assigned')
        n = self.fresh('h')
        a = self.fresh('p')
        c = self.r.random()
        if c < 0.4:
            self.emit(ind, f'{n} = lambda {a}, *r, k={self.int_expr(sc)}: {a} + k + len(r)')
            self.emit(ind, f'print({n}({self.int_expr(sc)}, 1, 2), {n}(0, k=1))')
        elif c < 0.7:
            self.emit(ind, f'{n} = lambda {a}: [{a} + t for t in {self.list_expr(sc.nested())}]')
            self.emit(ind, f'print({n}({self.int_expr(sc)}))')
        elif c < 0.85:
            self.emit(ind, f'{n} = lambda {a}={self.int_expr(sc)}, /: (lambda: {a} * 2)()')
            self.emit(ind, f'print({n}(), {n}(3))')
        else:
            # parameters that shadow the very names their defaults read (positional and keyword-only)
            outer = [v for v in sc.visible(INT) if v not in sc.protected]
            if len(outer) < 2 or sc.kind == 'class':
                return self.s_assign(sc, ind, depth)
            self.features.add('lambda-shadowing-defaults')
            v1, v2 = self.r.sample(outer, 2)
            sc.used.update((v1, v2))
            self.emit(ind, f'{n} = lambda {a}, {v1}={v1}, *, {v2}={v2} + 1: ({a}, {v1}, {v2})')
            self.emit(ind, f'print({n}(0), {n}(1, 2, {v2}=3))')

    def s_scopechain(self, sc, ind, depth):
        """A chain of 2-4 nested functions that all talk about one module-level name: each level binds it
        (parameter / local), reads it, declares it global or nonlocal and updates it, or ignores it."""
        m = sc.module()
        cands = [n for n, t in m.vars.items() if t == INT and n not in m.protected]
        if sc.kind != 'module' or not cands:
            return self.s_assign(sc, ind, depth)
        self.features.add('scope-chain')
        r = self.r
        x = r.choice(cands)
        levels = r.randint(2, 4)
        names = [self.fresh('sf') for _ in range(levels)]
        owner_seen = False
        cur = ind
        for lv in range(levels):
            role = r.choice(['param', 'local', 'read', 'global', 'ignore'] + (['nonlocal'] if owner_seen else []))
            if role == 'param':
                self.emit(cur, f'def {names[lv]}({x}):')
                self.emit(cur + 1, f'print({lv}, {x})')
                owner_seen = True
            else:
                self.emit(cur, f'def {names[lv]}():')
                if role == 'local':
                    self.emit(cur + 1, f'{x} = {r.randint(100, 199)}')
                    self.emit(cur + 1, f'print({lv}, {x})')
                    owner_seen = True
                elif role == 'read':
                    self.emit(cur + 1, f'print({lv}, {x})')
                elif role == 'global':
                    self.emit(cur + 1, f'global {x}')
                    self.emit(cur + 1, f'{x} += {r.randint(1, 9)}')
                    self.emit(cur + 1, f'print({lv}, {x})')
                    owner_seen = False
                elif role == 'nonlocal':
                    self.emit(cur + 1, f'nonlocal {x}')
                    self.emit(cur + 1, f'{x} += {r.randint(1, 9)}')
                    self.emit(cur + 1, f'print({lv}, {x})')
                else:
                    self.emit(cur + 1, 'pass')
            names[lv] = (names[lv], role)
            cur += 1
        # calls, innermost first while unwinding
        for lv in range(levels - 1, -1, -1):
            cur -= 1
            nm, role = names[lv]
            arg = str(r.randint(200, 299)) if role == 'param' else ''
            self.emit(cur + (1 if lv > 0 else 0) - (1 if lv > 0 else 0) + (0), '')
            self.lines.pop()
            self.emit(cur if lv == 0 else cur, f'{nm}({arg})') if lv == 0 else self.emit(cur, f'{nm}({arg})')
            if lv > 0:
                pr, prole = names[lv - 1]
                if prole in ('param', 'local', 'read', 'global', 'nonlocal'):
                    self.emit(cur, f'print({lv - 1}, "after", {x})')
        self.emit(ind, f'print("chain", {x})')

    def s_factory(self, sc, ind, depth):
        """Closure factory: the inner function outlives the call that created it and keeps private state."""
        if sc.kind == 'class':
            return self.s_assign(sc, ind, depth)
        self.features.add('closure-factory')
        r = self.r
        mk, inner, n, acc = self.fresh('mk'), self.fresh('in'), self.fresh('a'), self.fresh('acc')
        self.emit(ind, f'def {mk}({n}, step={self.int_expr(sc)}):')
        self.emit(ind + 1, f'{acc} = [{n}]')
        self.emit(ind + 1, f'def {inner}(x, *more, scale=1):')
        self.emit(ind + 2, f'nonlocal {n}')
        self.emit(ind + 2, f'{n} += step')
        self.emit(ind + 2, f'{acc}.append({n})')
        self.emit(ind + 2, f'{acc}[4:] = []')
        self.emit(ind + 2, f'return (x + {n}) * scale + len(more)')
        self.emit(ind + 1, f'return {inner}, (lambda: list({acc}))')
        f1, g1 = self.fresh('fn'), self.fresh('gn')
        self.emit(ind, f'{f1}, {g1} = {mk}({self.int_expr(sc)})')
        self.emit(ind, f'print({f1}(1), {f1}(2, 9, scale=2), {g1}())')
        if r.random() < 0.5:
            f2 = self.fresh('fn')
            self.emit(ind, f'{f2} = {mk}({self.int_expr(sc)}, step=2)[0]')
            self.emit(ind, f'print({f2}(0), {f1}(0))')

    def s_recursion(self, sc, ind, depth):
        if sc.kind == 'class':
            return self.s_assign(sc, ind, depth)
        self.features.add('recursion')
        f = self.fresh('rec')
        c = self.r.random()
        if c < 0.5:
            self.emit(ind, f'def {f}(n, acc=1):')
            self.emit(ind + 1, 'if n <= 1:')
            self.emit(ind + 2, 'return acc')
            self.emit(ind + 1, f'return {f}(n - 1, acc * n % 1000)')
            self.emit(ind, f'print({f}({self.r.randint(0, 6)}))')
        else:
            g = self.fresh('rec')
            self.emit(ind, f'def {f}(n):')
            self.emit(ind + 1, f'return n == 0 or {g}(n - 1)')
            self.emit(ind, f'def {g}(n):')
            self.emit(ind + 1, f'return n != 0 and {f}(n - 1)')
            self.emit(ind, f'print({f}({self.r.randint(0, 5)}), {g}({self.r.randint(0, 5)}))')

    def s_kwcall(self, sc, ind, depth):
        """Definitions called with keywords, defaults overridden, star and double-star expansion."""
        self.features.add('keyword-calls')
        f = self.fresh('kf')
        self.emit(ind, f'def {f}(a, b=2, /, c=3, *rest, d={self.int_expr(sc)}, **kw):')
        self.emit(ind + 1, 'return (a, b, c, rest, d, sorted(kw.items()))')
        self.emit(ind, f'print({f}(1), {f}(1, 5, c=6), {f}(1, 2, 3, 4, 5, d=0, z=1))')
        self.emit(ind, f"print({f}(*[1, 2], **{{'c': 9, 'y': 8}}), {f}(0, d={self.int_expr(sc)}, **{{'a': 'kw-named-like-posonly'}}))")

    def s_docstring(self, sc, ind, depth):
        self.features.add('docstring')
        f = self.fresh('df')
        self.emit(ind, f'def {f}():')
        self.emit(ind + 1, '"""A docstring\n    over two lines with \'quotes\' and \\ backslash."""')
        self.emit(ind + 1, "'another string statement'")
        self.emit(ind + 1, '...')
        self.emit(ind + 1, 'return 7')
        self.emit(ind, f'print({f}())')

    def s_mapfilter(self, sc, ind, depth):
        self.features.add('map-filter-sorted')
        l = self.list_expr(sc)
        self.emit(ind, f'print(list(map(lambda q: q * 2, {l})), sorted({l}, key=lambda q: -q)[:3], list(filter(None, {l}))[:3], any(q > 3 for q in {l}))')

    def s_forstar(self, sc, ind, depth):
        """for loops with starred / nested / attribute / subscript targets."""
        self.features.add('for-complex-target')
        c = self.r.random()
        a, b, d = self.fresh('i'), self.fresh('j'), self.fresh('k')
        if c < 0.4:
            self.emit(ind, f'for {a}, *{b} in [(1, 2, 3), (4,), [5, 6]]:')
            self.emit(ind + 1, f'print({a}, {b})')
            sc.vars[a] = INT
        elif c < 0.7:
            self.emit(ind, f'for ({a}, {b}), {d} in [((1, 2), 3), ((4, 5), 6)]:')
            self.emit(ind + 1, f'print({a} + {b} + {d})')
            sc.vars[a] = sc.vars[b] = sc.vars[d] = INT
        else:
            box = self.fresh('bx')
            self.emit(ind, f'{box} = [0, 0]')
            self.emit(ind, f'for {box}[0], {box}[1] in [(1, 2), (3, 4)]:')
            self.emit(ind + 1, f'print({box})')
            self.emit(ind, f'print({box})')
            sc.vars[box] = LIST

    def s_augslice(self, sc, ind, depth):
        ls = [n for n in sc.visible(LIST)]
        if not ls:
            return self.s_assign(sc, ind, depth)
        self.features.add('augassign-slice')
        l = self.r.choice(ls)
        self.emit(ind, f'{l}[1:3] += [{self.int_expr(sc)}]')
        self.emit(ind, f'{l}[::2] = [0] * len({l}[::2])')
        self.emit(ind, f'{l}[:0] *= 2')
        self.emit(ind, f'{l}[5:] = []')
        self.emit(ind, f'{l}.append(1)')
        self.emit(ind, f'print({l})')

    def s_methodstate(self, sc, ind, depth):
        """A class whose methods keep state, loop, return early and call each other."""
        if sc.kind == 'class':
            return self.s_assign(sc, ind, depth)
        self.features.add('stateful-methods')
        K, o = self.fresh('St'), self.fresh('so')
        self.emit(ind, f'class {K}:')
        self.emit(ind + 1, 'count = 0')
        self.emit(ind + 1, 'def __init__(self, start=0):')
        self.emit(ind + 2, 'self.items = [start]')
        self.emit(ind + 2, f'{K}.count += 1')
        self.emit(ind + 1, 'def push(self, *vals):')
        self.emit(ind + 2, 'for v in vals:')
        self.emit(ind + 3, 'if v < 0:')
        self.emit(ind + 4, 'return self')
        self.emit(ind + 3, 'self.items.append(v)')
        self.emit(ind + 3, 'self.items[5:] = []')
        self.emit(ind + 2, 'else:')
        self.emit(ind + 3, "self.last = 'all'")
        self.emit(ind + 2, 'return self')
        self.emit(ind + 1, 'def total(self):')
        self.emit(ind + 2, 't = 0')
        self.emit(ind + 2, 'i = 0')
        self.emit(ind + 2, 'while i < len(self.items):')
        self.emit(ind + 3, 't += self.items[i]')
        self.emit(ind + 3, 'i += 1')
        self.emit(ind + 3, 'if t > 50:')
        self.emit(ind + 4, 'break')
        self.emit(ind + 2, 'return t')
        self.emit(ind + 1, 'def __repr__(self):')
        self.emit(ind + 2, f"return '{K}(%r)' % (self.items,)")
        self.emit(ind, f'{o} = {K}({self.int_expr(sc)}).push(1, {self.int_expr(sc)}).push(2, -1, 3)')
        self.emit(ind, f"print({o}, {o}.total(), {K}.count, getattr({o}, 'last', None))")

    def s_private(self, sc, ind, depth):
        """Private (name-mangled) class members: attributes, methods, parameters, comprehension variables, aliases."""
        if sc.kind == 'class':
            return self.s_assign(sc, ind, depth)
        self.features.add('private-names')
        r = self.r
        K, o = self.fresh(r.choice(['Pv', '_Pv', '__Pv'])), self.fresh('po')
        a, m, p = r.choice(['__a', '__val', '___x', '__a_']), r.choice(['__m', '__do']), r.choice(['__p', '__arg'])
        self.emit(ind, f'class {K}:')
        self.emit(ind + 1, f'{a} = {self.int_expr(sc, 1)}')
        self.emit(ind + 1, '__dunder__ = 1')
        self.emit(ind + 1, 'import string as __st')
        self.emit(ind + 1, 'from os import sep as __sep')
        self.emit(ind + 1, f'def __init__(self, {p}=2):')
        self.emit(ind + 2, f'self.{a}i = {p} + self.{a}')
        self.emit(ind + 1, f'def {m}(self, {p}, *, __k=1):')
        self.emit(ind + 2, f'return [self.{a} + {p} + __k + __q for __q in range(2)]')
        self.emit(ind + 1, f'lam = lambda self, {p}=3: (self.{a}i, {p})')
        self.emit(ind + 1, 'def run(self):')
        self.emit(ind + 2, 'out = []')
        self.emit(ind + 2, 'for __i in range(2):')
        self.emit(ind + 3, f'out.append(self.{m}(__i))')
        self.emit(ind + 2, f'self.{a}i += 1')
        self.emit(ind + 2, 'def inner():')
        self.emit(ind + 3, f"return self.{a}i, self.__dunder__, self.__st.digits[:2], self.__sep")
        self.emit(ind + 2, 'return out, inner(), self.lam()')
        if r.random() < 0.5:
            self.emit(ind + 1, f'class __In:')
            self.emit(ind + 2, f'{a} = 7')
            self.emit(ind + 2, 'def get(self):')
            self.emit(ind + 3, f'return self.{a}')
            self.emit(ind + 1, f'inner_val = __In().get()')
        self.emit(ind, f'{o} = {K}({self.int_expr(sc)})')
        self.emit(ind, f"print({o}.run(), sorted(k for k in vars({K}) if not k.endswith('__')), sorted(vars({o})))")

    def s_shadowbuiltins(self, sc, ind, depth):
        """A function whose parameters / locals are spelled like the builtins that generated code calls."""
        if sc.kind == 'class':
            return self.s_assign(sc, ind, depth)
        self.features.add('locals-spelled-like-builtins')
        r = self.r
        f = self.fresh('shb')
        names = ['list', 'type', 'iter', 'next', 'setattr', 'tuple', 'slice', 'globals', 'locals', 'getattr', 'hasattr', 'super', 'classmethod']
        r.shuffle(names)
        p = names[:9]
        self.emit(ind, f'def {f}({p[0]}, {p[1]}=1, *, {p[2]}=2, {p[3]}=3):')
        self.emit(ind + 1, f'{p[4]} = {r.randint(1, 9)}')
        self.emit(ind + 1, f'{p[5]}, *{p[6]} = [{p[0]}, {p[1]}, {p[2]}]')
        self.emit(ind + 1, 'class Q:')
        self.emit(ind + 2, f'z = {p[3]}')
        self.emit(ind + 2, 'def m(self):')
        self.emit(ind + 3, f'return {p[4]}')
        self.emit(ind + 1, 'o = Q()')
        self.emit(ind + 1, f'o.z += {p[4]}')
        self.emit(ind + 1, 'l2 = [1, 2, 3]')
        self.emit(ind + 1, f'l2[0:1] = [{p[5]}]')
        self.emit(ind + 1, f'l2[1] += {p[4]}')
        self.emit(ind + 1, f'for {p[7]} in [1, 2, 3]:')
        self.emit(ind + 2, f'if {p[7]} == 2:')
        self.emit(ind + 3, 'break')
        self.emit(ind + 1, f'{p[8]} = 0')
        self.emit(ind + 1, f'while {p[8]} < 2:')
        self.emit(ind + 2, f'{p[8]} += 1')
        self.emit(ind + 1, 'import os.path')
        self.emit(ind + 1, 'from os import sep')
        self.emit(ind + 1, f'return ({p[5]}, {p[6]}, o.z, o.m(), l2, {p[7]}, {p[8]}, os.path.basename("a/b"), sep)')
        self.emit(ind, f'print({f}({r.randint(1, 9)}))')

    def s_nestedclass(self, sc, ind, depth):
        if sc.kind == 'class':
            return self.s_assign(sc, ind, depth)
        self.features.add('nested-class')
        O = self.fresh('Out')
        self.emit(ind, f'class {O}:')
        self.emit(ind + 1, f'base = {self.int_expr(Scope("class", sc))}')
        self.emit(ind + 1, 'class In:')
        self.emit(ind + 2, 'def get(self, o):')
        self.emit(ind + 3, 'return o.base + 1')
        self.emit(ind + 2, 'class Deep:')
        self.emit(ind + 3, "tag = 'deep'")
        self.emit(ind + 1, 'def make(self):')
        self.emit(ind + 2, f'return self.In().get(self), {O}.In.Deep.tag')
        self.emit(ind, f'print({O}().make())')

    def s_lazygen(self, sc, ind, depth):
        """A generator expression created before, and consumed after, a rebinding of what it closes over."""
        if sc.kind == 'class':
            return self.s_assign(sc, ind, depth)
        self.features.add('lazy-generator')
        g, n, src = self.fresh('ge'), self.fresh('v'), self.fresh('ls')
        self.emit(ind, f'{n} = {self.int_expr(sc)}')
        self.emit(ind, f'{src} = [1, 2, 3]')
        self.emit(ind, f'{g} = (q + {n} for q in {src})')
        self.emit(ind, f'{n} = {n} + 10')
        self.emit(ind, f'{src} = [7]')
        self.emit(ind, f'print(next({g}), list({g}), {n})')
        sc.vars[n] = INT
        sc.vars[src] = LIST

    def s_if(self, sc, ind, depth):
        self.features.add('if')
        self.emit(ind, f'if {self.bool_expr(sc)}:')
        before = dict(sc.vars); fbefore = dict(sc.funcs)
        self.block(sc, ind + 1, depth - 1)
        after_body = sc.vars
        sc.vars = dict(before); sc.funcs = dict(fbefore)
        c = self.r.random()
        if c < 0.3:
            self.emit(ind, f'elif {self.bool_expr(sc)}:')
            self.block(sc, ind + 1, depth - 1)
            sc.vars = dict(before); sc.funcs = dict(fbefore)
        if c < 0.6:
            self.emit(ind, 'else:')
            self.block(sc, ind + 1, depth - 1)
        sc.vars = before   # only definitely-bound names stay
        sc.funcs = fbefore

    def s_for(self, sc, ind, depth):
        self.features.add('for')
        r = self.r
        x = self.fresh('i')
        c = r.random()
        before = dict(sc.vars); fbefore = dict(sc.funcs)
        if c < 0.1:
            self.features.add('walrus-in-for-iterable')
            src_ = self.fresh('ws')
            self.emit(ind, f'for {x} in ({src_} := {self.list_expr(sc, 1)}):')
            sc.vars[x] = INT
            before[src_] = LIST
            sc.vars[src_] = LIST
        elif c < 0.5:
            self.emit(ind, f'for {x} in {self.list_expr(sc)}:')
            sc.vars[x] = INT
        elif c < 0.7:
            self.emit(ind, f'for {x} in range({r.randint(0, 4)}):')
            sc.vars[x] = INT
        elif c < 0.85:
            y = self.fresh('j')
            self.emit(ind, f'for {x}, {y} in enumerate({self.list_expr(sc)}):')
            sc.vars[x] = sc.vars[y] = INT
        else:
            y = self.fresh('j')
            self.emit(ind, f'for {x}, {y} in zip({self.list_expr(sc)}, {self.list_expr(sc)}):')
            sc.vars[x] = sc.vars[y] = INT
        sc.loop_depth += 1
        self.block(sc, ind + 1, depth - 1)
        sc.loop_depth -= 1
        sc.vars = dict(before); sc.funcs = dict(fbefore)
        if r.random() < 0.3:
            self.features.add('loop-else')
            self.emit(ind, 'else:')
            self.block(sc, ind + 1, depth - 1)
            self._else_tail(sc, ind + 1)
            sc.vars = dict(before); sc.funcs = dict(fbefore)

    def s_while(self, sc, ind, depth):
        self.features.add('while')
        i = self.fresh('n')
        self.emit(ind, f'{i} = 0')
        sc.vars[i] = INT
        sc.protected.add(i)
        before = dict(sc.vars); fbefore = dict(sc.funcs)
        kq = self.r.random()
        if kq < 0.15:
            # the test itself consumes something: evaluating it once too often (after a break / return) is visible
            self.features.add('while-test-with-side-effect')
            q = self.fresh('wq')
            self.emit(ind, f'{q} = [3, 2, {self.r.randint(0, 2)}, 1, 0, 7, 0, 9]')
            self.emit(ind, f'while {q}.pop(0):')
            self.emit(ind + 1, f'{i} += 1')
            self.emit(ind + 1, f'if {i} == {self.r.randint(1, 3)}:')
            self.emit(ind + 2, 'break' if self.r.random() < 0.7 or sc.kind != 'func' else f'return len({q})')
            sc.loop_depth += 1
            self.block(sc, ind + 1, depth - 1)
            sc.loop_depth -= 1
            sc.vars = dict(before); sc.funcs = dict(fbefore)
            if self.r.random() < 0.3:
                self.emit(ind, 'else:')
                self.emit(ind + 1, f"print('exhausted', {q})")
            self.emit(ind, f'print({q}, {i})')
            return
        if kq < 0.4:
            # the loop variable is advanced by an assignment expression in the test itself
            self.features.add('walrus-in-while-test')
            self.emit(ind, f'while ({i} := {i} + 1) <= {self.r.randint(1, 4)}:')
        else:
            self.emit(ind, f'while {i} < {self.r.randint(1, 4)}:')
            self.emit(ind + 1, f'{i} += 1')
        sc.loop_depth += 1
        self.block(sc, ind + 1, depth - 1)
        sc.loop_depth -= 1
        sc.vars = dict(before); sc.funcs = dict(fbefore)
        if self.r.random() < 0.3:
            self.features.add('loop-else')
            self.emit(ind, 'else:')
            self.block(sc, ind + 1, depth - 1)
            self._else_tail(sc, ind + 1)
            sc.vars = dict(before); sc.funcs = dict(fbefore)

    def _else_tail(self, sc, ind):
        """A loop's else clause that ends in a bare interrupt of the *enclosing* loop / function."""
        c = self.r.random()
        if sc.loop_depth and c < 0.3:
            self.features.add('loop-else-ends-in-interrupt')
            self.emit(ind, self.r.choice(['continue', 'break']))
            self._dead(ind)
        elif sc.kind == 'func' and c < 0.1:
            self.features.add('loop-else-ends-in-interrupt')
            self.emit(ind, f'return {self.int_expr(sc)}')

    def s_leave2(self, sc, ind, depth):
        """The 'leave two loops' idiom and its relatives: inner loop with break + else ending in an interrupt,
        statements after the inner loop."""
        self.features.add('leave-two-loops')
        r = self.r
        x, y, acc = self.fresh('i'), self.fresh('j'), self.fresh('acc')
        before = dict(sc.vars); fbefore = dict(sc.funcs)
        self.emit(ind, f'{acc} = []')
        outer_while = r.random() < 0.3
        if outer_while:
            self.emit(ind, f'{x} = 0')
            self.emit(ind, f'while {x} < {r.randint(2, 4)}:')
            self.emit(ind + 1, f'{x} += 1')
        else:
            self.emit(ind, f'for {x} in range({r.randint(1, 4)}):')
        sc.vars[x] = INT
        sc.protected.add(x)
        self.emit(ind + 1, f'for {y} in range({r.randint(0, 4)}):')
        sc.vars[y] = INT
        self.emit(ind + 2, f'{acc}.append(({x}, {y}))')
        word = r.choice(['break', 'break', 'continue'])
        self.emit(ind + 2, f'if {x} {r.choice(["+", "*", "-"])} {y} == {r.randint(0, 4)}:')
        self.emit(ind + 3, word)
        if r.random() < 0.5:
            self.emit(ind + 2, f'{acc}.append({self.int_expr(sc)})')
        self.emit(ind + 1, 'else:')
        if r.random() < 0.5:
            self.emit(ind + 2, f"{acc}.append('else')")
        tail = r.choice(['continue', 'continue', 'break'] + ([f'return len({acc})'] if sc.kind == 'func' else []))
        self.emit(ind + 2, tail)
        self._dead(ind + 2)
        self.emit(ind + 1, f"{acc}.append('after-inner')")
        after = r.choice(['break', 'break', 'continue', 'pass'] + ([f'return len({acc})'] if sc.kind == 'func' else []))
        self.emit(ind + 1, after)
        if r.random() < 0.5:
            self.emit(ind, 'else:')
            self.emit(ind + 1, f"{acc}.append('outer-else')")
        sc.vars = dict(before); sc.funcs = dict(fbefore)
        self.emit(ind, f'print({acc})')

    def s_bareann(self, sc, ind, depth):
        # a statement that generates no code at all
        self.features.add('bare-annotation')
        self.emit(ind, f'{self.fresh("ann")}: int')

    def _dead(self, ind):
        """Occasionally: statements behind an interrupt (never run, still converted)."""
        c = self.r.random()
        if c < 0.15:
            self.features.add('dead-code')
            self.emit(ind, "print('dead')")
        elif c < 0.25:
            self.features.add('dead-code')
            self.emit(ind, f'{self.fresh("dd")} = 0')

    def _interrupt(self, sc, ind, word):
        """`if c: <interrupt>` in several shapes: plain, with a no-code statement first, with else, with dead code."""
        c = self.r.random()
        self.emit(ind, f'if {self.bool_expr(sc)}:')
        if c < 0.15:
            self.emit(ind + 1, f'{self.fresh("ann")}: int')
            self.features.add('bare-annotation')
        self.emit(ind + 1, word)
        self._dead(ind + 1)
        if c > 0.8:
            self.emit(ind, 'else:')
            self.emit(ind + 1, f'{self.fresh("e")} = {self.int_expr(sc)}' if c > 0.9 else 'pass')

    def s_break(self, sc, ind, depth):
        self.features.add('break')
        return self._interrupt(sc, ind, 'break')
        self.emit(ind, f'if {self.bool_expr(sc)}:')
        self.emit(ind + 1, 'break')

    def s_continue(self, sc, ind, depth):
        self.features.add('continue')
        return self._interrupt(sc, ind, 'continue')

    def s_return(self, sc, ind, depth):
        self.features.add('return')
        c = self.r.random()
        if c < 0.5:
            self._interrupt(sc, ind, f'return {self.int_expr(sc)}')
        elif c < 0.6:
            self._interrupt(sc, ind, 'return')
        else:
            self.emit(ind, f'return {self.int_expr(sc)}')
            self._dead(ind)

    def s_nonlocal(self, sc, ind, depth):
        # declare+modify an int of the nearest enclosing function
        p = sc.parent
        while p and p.kind == 'class':
            p = p.parent
        if not p or p.kind != 'func':
            return self.s_assign(sc, ind, depth)
        cands = [n for n, t in p.vars.items() if t == INT and n not in sc.vars and n not in p.declared
                 and n not in sc.used and n not in p.protected]
        if not cands or sc.declared or self.lines_in_scope_started(sc):
            return self.s_assign(sc, ind, depth)
        n = self.r.choice(cands)
        self.features.add('nonlocal')
        self.emit(ind, f'nonlocal {n}')
        self.emit(ind, f'{n} += {self.int_expr(sc)}')
        sc.declared.add(n)
        sc.vars[n] = INT

    def s_global(self, sc, ind, depth):
        m = sc.module()
        cands = [n for n, t in m.vars.items() if t == INT and n not in sc.vars and n not in sc.used
                 and n not in m.protected]
        # the name must not be a parameter/local of this function
        if not cands or sc.declared or self.lines_in_scope_started(sc):
            return self.s_assign(sc, ind, depth)
        n = self.r.choice(cands)
        # the name must not be local in any enclosing function (D19) -> recorded as feature
        self.features.add('global')
        self.emit(ind, f'global {n}')
        self.emit(ind, f'{n} = {n} + {self.int_expr(sc)}')
        sc.declared.add(n)
        sc.vars[n] = INT

    def lines_in_scope_started(self, sc):
        return getattr(sc, 'started', False)

    def s_def(self, sc, ind, depth):
        self.features.add('def')
        r = self.r
        name = self.fresh('f')
        npar = r.randint(0, 3)
        params = []
        for _ in range(npar):
            outer_ints = [n for n in sc.visible(INT) if n not in params and n not in sc.protected]
            if outer_ints and r.random() < 0.2 and sc.kind != 'class':
                # a parameter that shadows a variable of an enclosing scope
                params.append(r.choice(outer_ints))
                self.features.add('shadowing-parameter')
            else:
                params.append(self.fresh('a'))
        sig = []
        for i, p in enumerate(params):
            sig.append(p)
        extra_params = []
        pieces = []
        # positional-only marker after some of the required parameters
        if params and r.random() < 0.15:
            k = r.randint(1, len(params))
            sig.insert(k, '/')
            self.features.add('posonly')
        for _ in range(r.choice([0, 0, 0, 1, 1, 2])):
            o = self.fresh("o")
            extra_params.append(o)
            pieces.append(f'{o}={self.int_expr(sc)}')
            self.features.add('default')
        star = False
        if r.random() < 0.2:
            pieces.append('*rest')
            star = True
        nkw = r.choice([0, 0, 0, 1, 1, 2, 3])
        if nkw:
            if not star:
                pieces.append('*')
            for _ in range(nkw):
                o = self.fresh("kw")
                extra_params.append(o)
                pieces.append(f'{o}={self.int_expr(sc)}')
            self.features.add('kwonly')
        if r.random() < 0.1:
            pieces.append('**kws')
            self.features.add('varkw')
        extra = ''.join(', ' + x for x in pieces)
        if r.random() < 0.15 and sc.kind != 'class':
            self.features.add('decorator')
            self.emit(ind, '@(lambda fn: fn)' if not self.py38 else '@staticmethod' if False else '@_ident')
        inner = Scope('func', sc)
        is_method = sc.kind == 'class'
        allp = (['self'] if is_method else []) + sig
        self.emit(ind, f'def {name}({", ".join(allp)}{extra if allp or not extra.startswith(", ") else extra[2:]}):')
        for p in params:
            inner.vars[p] = INT
        for nm in extra_params:
            inner.vars[nm] = INT
        inner.started = False
        # allow nonlocal/global first
        self.block(inner, ind + 1, depth - 1, n=r.randint(1, 5))
        self.emit(ind + 1, f'return {self.int_expr(inner)}')
        if is_method:
            sc.classes.setdefault('_methods', {})[name] = npar
        else:
            sc.funcs[name] = npar
            sc.vars[name] = FUNC
            if r.random() < 0.7:
                self.emit(ind, f'print({name}({", ".join(self.int_expr(sc) for _ in range(npar))}))')

    def s_class(self, sc, ind, depth):
        if sc.kind == 'class' and self.r.random() < 0.7:
            return self.s_assign(sc, ind, depth)
        self.features.add('class')
        r = self.r
        name = self.fresh('K')
        base = ''
        hdr = r.random()
        if hdr < 0.15:
            self.features.add('class-keyword')
            base = "(_Base, tag='t%d')" % r.randint(0, 9)
        elif hdr < 0.3:
            self.features.add('metaclass')
            base = '(metaclass=_Meta)'
        elif hdr < 0.4:
            self.features.add('class-keyword')
            self.features.add('metaclass')
            base = "(_Base, metaclass=_Meta, tag=None)"
        inner = Scope('class', sc)
        if r.random() < 0.2:
            self.features.add('class-decorator')
            self.emit(ind, '@_cdeco')
        self.emit(ind, f'class {name}{base}:')
        attr = self.fresh('at')
        self.emit(ind + 1, f'{attr} = {self.int_expr(inner)}')
        inner.vars[attr] = INT
        self.emit(ind + 1, 'def __init__(self, x):')
        self.emit(ind + 2, f'self.x = x + {self.int_expr(Scope("func", inner))}')
        m = self.fresh('m')
        self.emit(ind + 1, f'def {m}(self, y):')
        msc = Scope('func', inner)
        msc.vars['y'] = INT
        self.block(msc, ind + 2, depth - 2, n=r.randint(1, 3))
        self.emit(ind + 2, f'return self.x + y + {self.int_expr(msc)}')
        if r.random() < 0.4:
            self.features.add('staticmethod')
            self.emit(ind + 1, '@staticmethod')
            self.emit(ind + 1, f'def sm(z):')
            self.emit(ind + 2, 'return z * 2')
        if r.random() < 0.4:
            self.features.add('property')
            self.emit(ind + 1, '@property')
            self.emit(ind + 1, f'def pr(self):')
            self.emit(ind + 2, 'return self.x + 1')
        if r.random() < 0.3:
            self.features.add('classmethod')
            self.emit(ind + 1, '@classmethod')
            self.emit(ind + 1, f'def cm(cls, z=1):')
            self.emit(ind + 2, f'return (cls.__name__, cls.{attr} + z)')
        if r.random() < 0.5:
            self.block(inner, ind + 1, depth - 1, n=r.randint(1, 2))
        sc.vars[name] = CLS
        o = self.fresh('ob')
        self.emit(ind, f'{o} = {name}({self.int_expr(sc)})')
        sc.vars[o] = OBJ
        self.emit(ind, f'print({o}.{m}({self.int_expr(sc)}), {name}.{attr}, {o}.x)')
        if 'tag=' in base:
            self.emit(ind, f'print({name}.tag)')
        if '_Meta' in base:
            self.emit(ind, f'print({name}.describe(), type({name}).__name__)')
        if r.random() < 0.3:
            self.features.add('inherit')
            sub = self.fresh('S')
            self.emit(ind, f'class {sub}({name}):')
            self.emit(ind + 1, f'def {m}(self, y):')
            self.emit(ind + 2, f'return super().{m}(y) + 100')
            self.emit(ind, f'print({sub}(1).{m}(2))')
            sc.vars[sub] = CLS

    def program(self):
        m = Scope('module')
        for l in PRELUDE.splitlines():
            self.lines.append(l)
        while self.budget > 0:
            self.stmt(m, 0, 3)
        # final observation of every module variable of printable type
        for n, t in sorted(m.vars.items()):
            if t in (INT, STR, LIST):
                self.emit(0, f'print({n!r}, {n})')
        return '\n'.join(self.lines) + '\n'


PRELUDE = '''def _ident(fn):
    return fn
def _cdeco(c):
    c.deco_tag = c.__name__ + '!'
    return c
class _Meta(type):
    def describe(cls):
        return 'meta:' + cls.__name__
class _Base:
    def __init_subclass__(cls, tag=None, **kw):
        super().__init_subclass__(**kw)
        cls.tag = tag
'''


def generate(seed, py38=False, weights=None):
    g = Gen(seed, py38=py38, weights=weights)
    src = g.program()
    return src, sorted(g.features)


if __name__ == '__main__':
    src, feats = generate(int(sys.argv[1]))
    print(src)
    print('#', feats)
