"""Control-flow skeletons (C05 workload): enumeration, biased random sampling, rendering, harness.

A skeleton is a block = list of statements; a statement is one of
  ['m'] ['break'] ['continue'] ['return'] ['if', body, orelse|None] ['while', body, orelse|None]
  ['for', body, orelse|None]
"""
import random

from ..observe import Fuel


def cnt(b):
    return sum(cnt1(s) for s in b)


def cnt1(s):
    if s[0] in ("m", "break", "continue", "return"):
        return 1
    return 1 + cnt(s[1]) + (cnt(s[2]) if s[2] else 0)


def blocks(depth, in_loop, in_func, size):
    """All blocks of 1-2 statements with total size <= size and nesting <= depth."""
    if size >= 1:
        for s, _ in stmts(depth, in_loop, in_func, size):
            yield [s]
    if size >= 2:
        for s1, r1 in stmts(depth, in_loop, in_func, size - 1):
            for s2, _ in stmts(depth, in_loop, in_func, r1):
                yield [s1, s2]


def stmts(depth, in_loop, in_func, size):
    if size <= 0:
        return
    yield ["m"], size - 1
    if in_loop:
        yield ["break"], size - 1
        yield ["continue"], size - 1
    if in_func:
        yield ["return"], size - 1
    if depth > 0 and size >= 2:
        for b in blocks(depth - 1, in_loop, in_func, size - 1):
            yield ["if", b, None], size - 1 - cnt(b)
            for e in blocks(depth - 1, in_loop, in_func, size - 1 - cnt(b)):
                yield ["if", b, e], size - 1 - cnt(b) - cnt(e)
        for kind in ("while", "for"):
            for b in blocks(depth - 1, True, in_func, size - 1):
                yield [kind, b, None], size - 1 - cnt(b)
                for e in blocks(depth - 1, in_loop, in_func, size - 1 - cnt(b)):
                    yield [kind, b, e], size - 1 - cnt(b) - cnt(e)


def has_interrupt(b):
    for s in b:
        if s[0] in ("break", "continue", "return"):
            return True
        if s[0] in ("if", "while", "for"):
            if has_interrupt(s[1]) or (s[2] and has_interrupt(s[2])):
                return True
    return False


def has_loop(b):
    for s in b:
        if s[0] in ("while", "for"):
            return True
        if s[0] == "if" and (has_loop(s[1]) or (s[2] and has_loop(s[2]))):
            return True
    return False


def rand_block(rng, depth, in_loop, in_func, budget, p_else=0.55):
    n = rng.choice([1, 1, 2, 2, 3])
    out = []
    for _ in range(n):
        if budget[0] <= 0:
            break
        out.append(rand_stmt(rng, depth, in_loop, in_func, budget, p_else))
    return out or [["m"]]


def rand_stmt(rng, depth, in_loop, in_func, budget, p_else):
    budget[0] -= 1
    choices = ["m", "m"]
    if in_loop:
        choices += ["break", "continue"]
    if in_func:
        choices += ["return"]
    if depth > 0 and budget[0] > 1:
        choices += ["if", "if", "if", "while", "for", "for"]
    k = rng.choice(choices)
    if k in ("m", "break", "continue", "return"):
        return [k]
    if k == "if":
        b = rand_block(rng, depth - 1, in_loop, in_func, budget, p_else)
        e = rand_block(rng, depth - 1, in_loop, in_func, budget, p_else) if rng.random() < p_else + 0.05 else None
        return ["if", b, e]
    b = rand_block(rng, depth - 1, True, in_func, budget, p_else)
    e = rand_block(rng, depth - 1, in_loop, in_func, budget, p_else) if rng.random() < p_else - 0.05 else None
    return [k, b, e]


def rand_long(rng, in_func):
    """Long flat blocks of guarded interrupts (many guard splits in one block), nested 1-3 loops deep."""
    def guarded(in_loop):
        ints = (["break", "continue", "continue"] if in_loop else []) + (["return"] if in_func else [])
        if not ints:
            return ["m"]
        body = [[rng.choice(ints)]]
        if rng.random() < 0.3:
            body.insert(0, ["m"])
        orelse = None
        r = rng.random()
        if r < 0.15:
            orelse = [["m"]]
        elif r < 0.25:
            orelse = [[rng.choice(ints)]]
        return ["if", body, orelse]

    def flat(in_loop, n):
        out = []
        for _ in range(n):
            out.append(["m"] if rng.random() < 0.45 else guarded(in_loop))
        return out

    depth = rng.randint(1, 3)
    inner = flat(True, rng.randint(3, 8))
    for d in range(depth):
        kind = rng.choice(["while", "for"])
        orelse = flat(d < depth - 1, rng.randint(1, 3)) if rng.random() < 0.4 else None
        loop = [kind, inner, orelse]
        if d < depth - 1:
            pre = flat(True, rng.randint(0, 2))
            post = flat(True, rng.randint(0, 3))
            inner = pre + [loop] + post
        else:
            inner = [loop] + (flat(False, rng.randint(0, 3)) if in_func or rng.random() < 0.5 else [])
    if rng.random() < 0.3:
        inner = [["if", inner, flat(False, rng.randint(1, 4)) if rng.random() < 0.5 else None]]
    return inner


class _Ren:
    def __init__(self, trace_interrupts=False):
        self.k = 0
        self.lines = []
        self.ti = trace_interrupts
        self.loopvars = []

    def nid(self):
        self.k += 1
        return self.k

    def block(self, b, ind):
        for s in b:
            self.stmt(s, ind)

    def _lv(self):
        return "".join(", " + v for v in self.loopvars[-2:])

    def stmt(self, s, ind):
        p = "    " * ind
        k = self.nid()
        if s[0] == "m":
            self.lines.append("%sm(%d%s)" % (p, k, self._lv()))
        elif s[0] in ("break", "continue"):
            if self.ti:
                self.lines.append("%staken(%d)" % (p, k))
            self.lines.append(p + s[0])
        elif s[0] == "return":
            if self.ti:
                self.lines.append("%staken(%d)" % (p, k))
            if k % 3 == 0:
                # a bare return (no value): the marker runs as a statement of its own
                self.lines.append("%sm(%d%s)" % (p, k, self._lv()))
                self.lines.append(p + "return")
            else:
                self.lines.append("%sreturn m(%d%s)" % (p, k, self._lv()))
        elif s[0] == "if":
            self.lines.append("%sif c(%d):" % (p, k))
            self.block(s[1], ind + 1)
            if s[2]:
                self.lines.append(p + "else:")
                self.block(s[2], ind + 1)
        elif s[0] == "while":
            if self.walrus:
                # the test binds a name (assignment expression in the loop header); the body observes it
                self.lines.append("%swhile (t%d := w(%d)):" % (p, k, k))
                self.lines.append("%s    m(('t', %d, t%d))" % (p, k, k))
            else:
                self.lines.append("%swhile w(%d):" % (p, k))
            saved = self.loopvars
            self.block(s[1], ind + 1)
            if s[2]:
                self.lines.append(p + "else:")
                self.block(s[2], ind + 1)
        elif s[0] == "for":
            if self.walrus:
                self.lines.append("%sfor v%d in (s%d := it(%d)):" % (p, k, k, k))
                self.lines.append("%s    m(('s', %d, s%d.k))" % (p, k, k))
            else:
                self.lines.append("%sfor v%d in it(%d):" % (p, k, k))
            self.loopvars.append("v%d" % k)
            self.block(s[1], ind + 1)
            self.loopvars.pop()
            if s[2]:
                self.lines.append(p + "else:")
                self.block(s[2], ind + 1)


def render(b, place, trace_interrupts=False, walrus=False):
    r = _Ren(trace_interrupts)
    r.walrus = walrus
    if place == "module":
        r.block(b, 0)
        r.lines.append("m(0)")
    elif place == "func":
        r.lines.append("def f():")
        r.block(b, 1)
        r.lines.append("m(('ret', f()))")
    elif place == "class":
        r.lines.append("class K:")
        r.block(b, 1)
        r.lines.append("m(0)")
    elif place == "method":
        r.lines.append("class K:")
        r.lines.append("    def f(self):")
        r.block(b, 2)
        r.lines.append("m(('ret', K().f()))")
    elif place == "nested":
        # the skeleton sits in an inner function defined inside a loop of an outer function
        r.lines.append("def g():")
        r.lines.append("    for v0 in it(0):")
        r.lines.append("        def f():")
        r.block(b, 3)
        r.lines.append("        m(('ret', f()))")
        r.lines.append("    else:")
        r.lines.append("        m(-1)")
        r.lines.append("    return m(-2)")
        r.lines.append("m(('ret', g()))")
    else:
        raise ValueError(place)
    return "\n".join(r.lines) + "\n"


PLACES = ("module", "func", "class")
PLACE_IN_FUNC = {"module": False, "func": True, "class": False, "method": True, "nested": True}


def harness(seed, fuel=200, n_items=2):
    """Environment factory: marker / condition probes / logging iterator. -> (namespace, log)."""
    rng = random.Random(seed)
    log = []
    left = [fuel]
    taken = set()

    def m(k, *lv):
        log.append(("m", k) + lv)
        return k

    def c(k):
        v = rng.random() < 0.5
        log.append(("c", k, v))
        return v

    def w(k):
        left[0] -= 1
        if left[0] < 0:
            raise Fuel()
        v = rng.random() < 0.6
        log.append(("w", k, v))
        return v

    class It:
        def __init__(s, k):
            s.k = k
            s.n = 0

        def __iter__(s):
            log.append(("iter", s.k))
            return s

        def __next__(s):
            left[0] -= 1
            if left[0] < 0:
                raise Fuel()
            s.n += 1
            if s.n > n_items:
                log.append(("stop", s.k))
                raise StopIteration
            log.append(("next", s.k, s.n))
            return s.n

    def it(k):
        log.append(("it", k))
        return It(k)

    ns = dict(m=m, c=c, w=w, it=it, taken=taken.add, __name__="__main__")
    ns["_taken_set"] = taken
    return ns, log
