"""Real-world modules as converter input: standard-library files with unsupported statements stripped."""
import ast

from . import exprs

UNSUP = tuple(getattr(ast, n) for n in ("Try", "TryStar", "Raise", "With", "Assert", "Delete", "AsyncFunctionDef",
                                          "AsyncFor", "AsyncWith", "Match", "TypeAlias") if hasattr(ast, n))


class Strip(ast.NodeTransformer):
    """Removes statements outside the supported fragment; keeps blocks non-empty."""

    def generic_visit(self, node):
        super().generic_visit(node)
        for f in ("body", "orelse", "finalbody"):
            b = getattr(node, f, None)
            if isinstance(b, list) and f == "body" and not b and isinstance(node, (ast.stmt, ast.Module)):
                node.body = [ast.Pass()]
        return node

    def visit(self, node):
        if isinstance(node, UNSUP):
            return None
        if isinstance(node, ast.ImportFrom) and any(a.name == "*" for a in node.names):
            return None
        if isinstance(node, (ast.FunctionDef, ast.Lambda)):
            for n in ast.walk(node):
                if isinstance(n, (ast.Yield, ast.YieldFrom, ast.Await)):
                    return None if isinstance(node, ast.FunctionDef) else ast.Constant(None)
        if isinstance(node, (ast.ListComp, ast.SetComp, ast.DictComp, ast.GeneratorExp)):
            if any(g.is_async for g in node.generators):
                return ast.Constant(None)
        if isinstance(node, ast.Expr) and isinstance(node.value, (ast.Yield, ast.YieldFrom, ast.Await)):
            return None
        if isinstance(node, (ast.Yield, ast.YieldFrom, ast.Await)):
            return ast.Constant(None)
        if isinstance(node, (ast.FunctionDef, ast.ClassDef)) and getattr(node, "type_params", None):
            node.type_params = []
        return super().visit(node)


def stripped_source(path):
    """Source of a stdlib file with unsupported statements removed, or None if it does not survive."""
    try:
        tree = ast.parse(open(path, encoding="utf8", errors="surrogateescape").read())
    except (SyntaxError, ValueError, RecursionError, UnicodeError):
        return None
    try:
        tree = Strip().visit(tree)
        ast.fix_missing_locations(tree)
        src = ast.unparse(tree)
        compile(src, path, "exec")
    except (SyntaxError, ValueError, RecursionError, UnicodeError, MemoryError):
        return None
    return src + "\n"


files = exprs.stdlib_files
