"""Expression-tree workloads for the unparser monitors (C03/C04).

Compositions are built as ASTs (slot template with a HOLE name, plugged with a child tree), rendered
by the stdlib `ast.unparse` only to obtain *source text*, re-parsed to T0 - so T0 is parse-produced by
construction - and T0 is what is judged. Compositions the host grammar rejects are counted and skipped.
"""
import ast
import copy
import glob
import os
import random
import sys
import sysconfig

H = "HOLE"

SLOTS = """
HOLE and b|a and HOLE|a and HOLE and c|HOLE or b|a or HOLE|(x := HOLE)
HOLE + b|a + HOLE|HOLE - b|a - HOLE|HOLE * b|a * HOLE|HOLE @ b|a @ HOLE|HOLE / b|a / HOLE|HOLE // b|a // HOLE|HOLE % b|a % HOLE
HOLE ** b|a ** HOLE|HOLE << b|a << HOLE|HOLE >> b|a >> HOLE|HOLE & b|a & HOLE|HOLE ^ b|a ^ HOLE|HOLE | b|a | HOLE
-HOLE|+HOLE|~HOLE|not HOLE|- -HOLE|not not HOLE|-HOLE ** 2|(-HOLE) ** 2|2 ** -HOLE|~-HOLE|HOLE.real|-HOLE.real
lambda: HOLE|lambda p=HOLE: 0|lambda p, q=HOLE, /, r=1: 0|lambda *, k=HOLE: 0|lambda *a, k=HOLE, **kw: 0|lambda p, *, j, k=HOLE, l: 0|lambda p=1, q=HOLE: 0
HOLE if b else c|a if HOLE else c|a if b else HOLE
{HOLE: v}|{k: v, **a, HOLE: w}|{**a, k: HOLE}|{**a, **HOLE}|{k: HOLE}|{**HOLE}|{k: v, **HOLE}|{HOLE}|{a, HOLE}|{*HOLE}|{k: v, HOLE: w}|{k: v, j: HOLE}
[HOLE]|[a, HOLE]|[*HOLE]|(HOLE,)|(a, HOLE)|(*HOLE,)|(HOLE, b)
[HOLE for i in j]|[e for i in HOLE]|[e for i in j if HOLE]|[e for i in j if c if HOLE]|[e for i in j for k in HOLE]|[e for i in j for k in l if HOLE]
{HOLE for i in j}|{e for i in HOLE}|{HOLE: v for i in j}|{k: HOLE for i in j}|{k: v for i in HOLE}|{k: v for i in j if HOLE}
(HOLE for i in j)|(e for i in HOLE)|(e for i in j if HOLE)|(e for i in j for k in HOLE)
await HOLE|(yield HOLE)|(yield from HOLE)
HOLE < b|a < b == HOLE|a in HOLE not in c|a is HOLE is not c|not HOLE < b|a < HOLE|a < HOLE < c|a < b < HOLE|HOLE is b|a is not HOLE|HOLE in b|a not in HOLE|a == HOLE|HOLE != b|a >= HOLE|HOLE <= b
HOLE()|f(HOLE, k=1)|f(HOLE, **kw)|f(HOLE, k=1, **kw)|f(**HOLE, k=1)|f(**a, k=HOLE)|f(k=1, *HOLE)|f(*a, k=1, *HOLE)|f(**a, **HOLE)|f(a, **b, k=HOLE, **c)|f(HOLE)|f(HOLE, b)|f(a, HOLE)|f(*HOLE)|f(a, *HOLE)|f(k=HOLE)|f(**HOLE)|f(a, k=HOLE)|f(k=1, *HOLE)|f(*a, HOLE)|f(k=1, **HOLE)|f(HOLE for i in j)|f(j=1, k=HOLE)|HOLE(a)|HOLE(k=1)
f'{HOLE}'|f'{HOLE!r}'|f'{HOLE:>10}'|f'{a:{HOLE}}'|f'{a:x{HOLE}y}'|f'p{HOLE}q{b}'|f'{HOLE!s:>{w}}'|f'{a:{w}{HOLE}}'|f'{HOLE!a}'
HOLE.attr|HOLE[i]|a[HOLE]|a[HOLE:]|a[:HOLE]|a[::HOLE]|a[HOLE:b:c]|a[HOLE::c]|a[:HOLE:c]|a[::HOLE, b]|a[HOLE:b, c:d]|a[b:c, d:HOLE:e]|a[..., HOLE]|a[b:HOLE:c]|a[b:c:HOLE]|a[HOLE, b]|a[b, HOLE]|a[HOLE,]|a[*HOLE]|a[b:c, HOLE]|a[HOLE:b, c]|a[b, c:HOLE]|a[b, ::HOLE]
""".replace("\n", "|").strip("|").split("|")

PLUGS = """
a and b|a or b|x := 1|a + b|a - b|a * b|a @ b|a / b|a // b|a % b|a ** b|a << b|a >> b|a & b|a ^ b|a | b
-a|+a|~a|not a|lambda: a|lambda p: a|a if b else c|{k: v}|{a}|{**a}|[a]|[]|()|(a,)|(a, b)|[i for i in j]|{i for i in j}|{i: i for i in j}|(i for i in j)
await a|yield|yield a|yield from a|a < b|a is b|a in b|a < b < c|f()|f(a)|f(a, b)|f'{a}'|f's'|'s'|b'b'|1|1.5|1j|None|...|True|a|a.b|a[b]|a[b:c]|*a|-1|1 .real
""".replace("\n", "|").strip("|").split("|")

SLOTS = [s for s in SLOTS if s]
PLUGS = [p for p in PLUGS if p]


def parse(s):
    return ast.parse(s, mode="eval").body


class _Sub(ast.NodeTransformer):
    def __init__(self, repl):
        self.repl = repl

    def visit_Name(self, node):
        if node.id == H:
            return copy.deepcopy(self.repl)
        return node


def compose(slot_tree, plug_tree):
    return ast.fix_missing_locations(_Sub(plug_tree).visit(copy.deepcopy(slot_tree)))


def slot_trees():
    out = []
    for s in SLOTS:
        try:
            out.append((s, parse(s)))
        except SyntaxError:
            pass
    return out


def plug_trees():
    out = []
    for p in PLUGS:
        if p.startswith("*"):
            out.append((p, ast.Starred(value=ast.Name(id="a", ctx=ast.Load()), ctx=ast.Load())))
            continue
        try:
            out.append((p, parse(p)))
        except SyntaxError:
            pass
    return out


def parse_produced(T):
    """(T0, src) with T0 = parse(ast.unparse(T)) if the host accepts it, else (None, reason)."""
    try:
        src = ast.unparse(T)
    except Exception:
        return None, "ref-unparse-raise"
    try:
        T0 = parse(src)
    except (SyntaxError, ValueError):
        return None, "invalid-composition"
    return T0, src


def random_tree(rng, slots, plugs, depth):
    """Random composition of `depth` slots ending in a plug (right-edge biased by the slot catalogue)."""
    t = rng.choice(plugs)[1]
    for _ in range(depth):
        t = compose(rng.choice(slots)[1], t)
    return t


def random_wide_tree(rng, slots, plugs, depth):
    """Like random_tree, but every remaining free name of the slot may itself be replaced by a subtree."""
    t = random_tree(rng, slots, plugs, depth)
    names = [n for n in ast.walk(t) if isinstance(n, ast.Name) and isinstance(n.ctx, ast.Load) and n.id in "abcefkvw"]
    rng.shuffle(names)
    for n in names[:2]:
        sub = random_tree(rng, slots, plugs, rng.randint(0, 2))
        if isinstance(sub, (ast.Starred,)):
            continue
        n.id = H
        t = compose(t, sub)
    return t


def stdlib_files():
    base = sysconfig.get_paths()["stdlib"]
    files = sorted(glob.glob(os.path.join(base, "*.py")) + glob.glob(os.path.join(base, "*", "*.py"))
                   + glob.glob(os.path.join(base, "*", "*", "*.py")))
    return [f for f in files if "/site-packages/" not in f and "/lib2to3/tests/data" not in f
            and "/test/bad" not in f and "/tests/data/" not in f]


def maximal_expressions(tree):
    """Every maximal expression node of a module (an expr whose parent is not an expr)."""
    stack = [tree]
    while stack:
        n = stack.pop()
        for c in ast.iter_child_nodes(n):
            if isinstance(c, ast.expr):
                if isinstance(c, ast.Starred) and not isinstance(n, ast.expr):
                    stack.append(c)
                    continue
                yield c
            else:
                stack.append(c)


PAIR_TEMPLATES = ["H1 %s H2" % op for op in ("+", "-", "*", "@", "/", "//", "%", "**", "<<", ">>", "&", "^", "|")] + [
    "H1 and H2", "H1 or H2", "H1 < H2", "H1 in H2", "H1 if H2 else c", "a if H1 else H2", "H1 if b else H2", "H1[H2]",
    "H1(H2)", "f(H1, k=H2)", "f(*H1, **H2)", "f(H1, k=H2)", "f(H1, **H2)", "f(**H1, k=H2)", "f(k=H1, *H2)", "f(**H1, **H2)", "{H1: H2}", "[H1 for i in H2]", "[e for i in H1 if H2]",
    "lambda p=H1: H2", "f'{H1:{H2}}'", "f'{H1!r}{H2}'", "H1[H2:]", "a[H1:H2]", "a[H1, H2]", "(H1, H2)", "(x := H1)[H2]",
    "H1 < b < H2", "-H1 ** H2", "H1.attr(H2)", "{**H1, k: H2}", "not H1 == H2", "await H1 ** H2",
]


class _Sub2(ast.NodeTransformer):
    def __init__(self, r1, r2):
        self.r = {"H1": r1, "H2": r2}

    def visit_Name(self, node):
        if node.id in self.r:
            return copy.deepcopy(self.r[node.id])
        return node


def pair_templates():
    out = []
    for t in PAIR_TEMPLATES:
        try:
            out.append((t, parse(t)))
        except SyntaxError:
            pass
    return out


def compose2(tmpl_tree, p1, p2):
    return ast.fix_missing_locations(_Sub2(p1, p2).visit(copy.deepcopy(tmpl_tree)))
