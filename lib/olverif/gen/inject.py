"""Injection of unsupported constructs / illegal placements at every position of a host program (C08, C02)."""
import ast
import copy
import sys

STMT_CONSTRUCTS = {
    "try-except": "try:\n    pass\nexcept Exception:\n    pass\n",
    "try-finally": "try:\n    pass\nfinally:\n    pass\n",
    "raise": "raise ValueError('x')\n",
    "bare-raise": "raise\n",
    "with": "with open('x') as fh:\n    pass\n",
    "assert": "assert True\n",
    "del": "del zz9\n",
    "del-subscript": "del zz9[0]\n",
    "async-def": "async def af9():\n    pass\n",
    "async-def-await": "async def af9():\n    await zz9\n",
    "async-for": "async def af9():\n    async for q9 in zz9:\n        pass\n",
    "async-with": "async def af9():\n    async with zz9:\n        pass\n",
    "star-import": "from os import *\n",
    "match": "match zz9:\n    case _:\n        pass\n",
    "gen-def": "def gf9():\n    yield 1\n",
    "genfrom-def": "def gf9():\n    yield from []\n",
    "gen-lambda": "gl9 = lambda: (yield)\n",
    "yield-in-default": "def gd9():\n    def inner(a=(yield)):\n        pass\n",
    "yield-in-decorator": "def gd9():\n    @(yield)\n    def inner():\n        pass\n",
    "yield-in-fstring": "def gd9():\n    return f'{(yield)}'\n",
    "yield-in-comp": "def gd9():\n    return [(yield) for q9 in []]\n" if sys.version_info < (3, 8) else "def gd9():\n    return [q9 for q9 in (yield)]\n",
    "yield-assign": "def gd9():\n    zz9 = yield 3\n",
    "await-in-def": "def gd9():\n    return await_target9\n".replace("await_target9", "(await zz9)"),
    "async-comprehension": "async def af9():\n    return [q9 async for q9 in zz9]\n",
    "try-in-dead-branch": "if 0:\n    try:\n        pass\n    finally:\n        pass\n",
    "raise-in-loop-else": "for q9 in []:\n    pass\nelse:\n    raise KeyError\n",
    "with-in-nested-def": "def wf9():\n    def inner():\n        with zz9:\n            pass\n",
    "assert-in-class": "class AC9:\n    assert True\n",
    "del-in-method": "class DC9:\n    def m(self):\n        del self.x\n",
}
if sys.version_info >= (3, 11):
    STMT_CONSTRUCTS["try-star"] = "try:\n    pass\nexcept* Exception:\n    pass\n"
if sys.version_info >= (3, 12):
    STMT_CONSTRUCTS["type-alias"] = "type TA9 = int\n"

EXPR_CONSTRUCTS = {
    "yield": "(yield)",
    "yield-value": "(yield 1)",
    "yield-from": "(yield from [])",
    "await": "(await zz9)",
}


def _parse_stmts(src):
    try:
        return ast.parse(src).body
    except SyntaxError:
        return None


def stmt_positions(tree):
    """Every (node, field, index) where a statement can be inserted, with a description of the place."""
    def walk(node, place):
        for f in ("body", "orelse"):
            b = getattr(node, f, None)
            if isinstance(b, list) and (b or f == "body") and (not b or isinstance(b[0], ast.stmt)):
                here = place + [type(node).__name__ + "." + f]
                for i in range(len(b) + 1):
                    after_interrupt = any(isinstance(s, (ast.Break, ast.Continue, ast.Return)) for s in b[:i])
                    yield node, f, i, "/".join(here[-3:]) + ("+after-interrupt" if after_interrupt else "")
                for s in b:
                    yield from walk(s, here)
    yield from walk(tree, [])


def inject_statement(tree, node_path, stmts):
    """Deep-copies tree and inserts stmts at the position identified by index path."""
    raise NotImplementedError


def _index_tree(tree):
    return {id(n): i for i, n in enumerate(ast.walk(tree))}


def variants_stmt(src, constructs=None, max_positions=None, rng=None):
    """Yield (construct, place, new_source)."""
    tree = ast.parse(src)
    positions = list(stmt_positions(tree))
    if max_positions and len(positions) > max_positions and rng is not None:
        positions = rng.sample(positions, max_positions)
    order = {id(n): i for i, n in enumerate(ast.walk(tree))}
    for cname, csrc in (constructs or STMT_CONSTRUCTS).items():
        stmts = _parse_stmts(csrc)
        if stmts is None:
            continue
        for node, f, i, place in positions:
            t2 = copy.deepcopy(tree)
            target = list(ast.walk(t2))[order[id(node)]]
            getattr(target, f)[i:i] = copy.deepcopy(stmts)
            try:
                yield cname, place, ast.unparse(ast.fix_missing_locations(t2)) + "\n"
            except Exception:
                continue


def expr_positions(tree):
    """Expression nodes (Load context) that can be wrapped, with (parent kind, field)."""
    for parent in ast.walk(tree):
        for f, v in ast.iter_fields(parent):
            for c in (v if isinstance(v, list) else [v]):
                if not isinstance(c, ast.expr):
                    continue
                if isinstance(c, (ast.Starred, ast.Slice)) or isinstance(getattr(c, "ctx", None), (ast.Store, ast.Del)):
                    continue
                if isinstance(parent, (ast.JoinedStr,)) or (isinstance(parent, ast.FormattedValue) and f == "format_spec"):
                    continue
                if isinstance(parent, ast.AnnAssign) and f == "annotation":
                    continue
                if isinstance(parent, ast.arg) or (isinstance(parent, (ast.FunctionDef,)) and f == "returns"):
                    continue
                if isinstance(parent, ast.keyword) and False:
                    continue
                yield parent, f, c


def variants_expr(src, max_positions=None, rng=None):
    """Yield (construct, place, new_source) with the construct wrapped around an expression position."""
    tree = ast.parse(src)
    order = {id(n): i for i, n in enumerate(ast.walk(tree))}
    positions = list(expr_positions(tree))
    if max_positions and len(positions) > max_positions and rng is not None:
        positions = rng.sample(positions, max_positions)
    for cname, csrc in EXPR_CONSTRUCTS.items():
        inj = ast.parse(csrc, mode="eval").body
        for parent, f, c in positions:
            t2 = copy.deepcopy(tree)
            nodes = list(ast.walk(t2))
            p2, c2 = nodes[order[id(parent)]], nodes[order[id(c)]]
            wrapped = ast.Subscript(value=ast.Tuple(elts=[c2, copy.deepcopy(inj)], ctx=ast.Load()),
                                    slice=ast.Constant(value=0), ctx=ast.Load())
            v = getattr(p2, f)
            if isinstance(v, list):
                v[v.index(c2)] = wrapped
            else:
                setattr(p2, f, wrapped)
            try:
                yield cname, type(parent).__name__ + "." + f, ast.unparse(ast.fix_missing_locations(t2)) + "\n"
            except Exception:
                continue


def variants_illegal(src, max_positions=None, rng=None):
    """break/continue outside a loop, return outside a function, two stars in one target pattern."""
    tree = ast.parse(src)
    order = {id(n): i for i, n in enumerate(ast.walk(tree))}
    # loop/function context of every statement position
    def walk(node, in_loop, in_func, place):
        for f in ("body", "orelse"):
            b = getattr(node, f, None)
            if not (isinstance(b, list) and (b or f == "body") and (not b or isinstance(b[0], ast.stmt))):
                continue
            il, inf = in_loop, in_func
            if isinstance(node, (ast.For, ast.While)) and f == "body":
                il = True
            if isinstance(node, ast.FunctionDef):
                il, inf = False, True
            if isinstance(node, ast.ClassDef):
                il, inf = False, False
            here = place + [type(node).__name__ + "." + f]
            for i in range(len(b) + 1):
                yield node, f, i, il, inf, "/".join(here[-3:])
            for s in b:
                yield from walk(s, il, inf, here)
    positions = list(walk(tree, False, False, []))
    if max_positions and len(positions) > max_positions and rng is not None:
        positions = rng.sample(positions, max_positions)
    for node, f, i, il, inf, place in positions:
        for cname, stmt, ok in (("break-outside-loop", ast.Break(), not il), ("continue-outside-loop", ast.Continue(), not il),
                                ("return-outside-function", ast.Return(value=None), not inf),
                                ("guarded-break-outside-loop", ast.If(test=ast.Constant(value=0), body=[ast.Break()], orelse=[]), not il),
                                ("guarded-return-outside-function", ast.If(test=ast.Constant(value=1), body=[ast.Pass()], orelse=[ast.Return(value=ast.Constant(value=1))]), not inf)):
            if not ok:
                continue
            t2 = copy.deepcopy(tree)
            target = list(ast.walk(t2))[order[id(node)]]
            getattr(target, f)[i:i] = [copy.deepcopy(stmt)]
            yield cname, place, ast.unparse(ast.fix_missing_locations(t2)) + "\n"
    # two stars
    k = 0
    for n in ast.walk(tree):
        targets = []
        if isinstance(n, ast.Assign):
            targets = [("Assign", n, "targets", j) for j in range(len(n.targets))]
        elif isinstance(n, (ast.For, ast.comprehension)):
            targets = [(type(n).__name__, n, "target", None)]
        for kind, holder, f, j in targets:
            k += 1
            for deep in (False, True):
                t2 = copy.deepcopy(tree)
                h2 = list(ast.walk(t2))[order[id(holder)]]
                old = getattr(h2, f) if j is None else getattr(h2, f)[j]
                two = ast.Tuple(elts=[ast.Starred(value=ast.Name(id="s1_9", ctx=ast.Store()), ctx=ast.Store()),
                                      old if not isinstance(old, ast.Starred) else old.value,
                                      ast.Starred(value=ast.Name(id="s2_9", ctx=ast.Store()), ctx=ast.Store())], ctx=ast.Store())
                new = two if not deep else ast.Tuple(elts=[ast.Name(id="s0_9", ctx=ast.Store()), two], ctx=ast.Store())
                if j is None:
                    setattr(h2, f, new)
                else:
                    getattr(h2, f)[j] = new
                try:
                    yield "two-stars" + ("-nested" if deep else ""), kind + "." + f, ast.unparse(ast.fix_missing_locations(t2)) + "\n"
                except Exception:
                    continue
