"""Independent walk of a source: which constructs put it outside the converter's input language.

Used by the C08 contract: `find(code)` returns a reason string if the source contains an
unsupported construct (README list) or one of the four illegal placements the property names,
else None. Iterative (explicit stack) so that deep programs do not overflow the monitor.
"""
import ast

_UNSUPPORTED_NODES = tuple(
    getattr(ast, n) for n in (
        "Yield", "YieldFrom", "Await", "AsyncFunctionDef", "AsyncFor", "AsyncWith", "Try", "TryStar",
        "Raise", "With", "Assert", "Delete", "Match", "TypeAlias",
    ) if hasattr(ast, n)
)


def _two_stars(target):
    """True if some tuple/list pattern (at any depth of this target) has two starred elements."""
    stack = [target]
    while stack:
        t = stack.pop()
        if isinstance(t, ast.Starred):
            stack.append(t.value)
        elif isinstance(t, (ast.Tuple, ast.List)):
            if sum(isinstance(e, ast.Starred) for e in t.elts) > 1:
                return True
            stack.extend(t.elts)
    return False


def find(code):
    try:
        tree = ast.parse(code)
    except (SyntaxError, ValueError):
        return None
    # (node, in_loop, in_func)
    stack = [(tree, False, False)]
    while stack:
        node, in_loop, in_func = stack.pop()
        if isinstance(node, _UNSUPPORTED_NODES):
            return "unsupported:" + type(node).__name__
        if isinstance(node, ast.comprehension) and node.is_async:
            return "unsupported:async-comprehension"
        if isinstance(node, ast.ImportFrom) and any(a.name == "*" for a in node.names):
            return "unsupported:star-import"
        if isinstance(node, (ast.Break, ast.Continue)) and not in_loop:
            return "illegal:%s-outside-loop" % type(node).__name__.lower()
        if isinstance(node, ast.Return) and not in_func:
            return "illegal:return-outside-function"
        if isinstance(node, ast.Assign):
            if any(_two_stars(t) for t in node.targets):
                return "illegal:two-stars"
        elif isinstance(node, (ast.For, ast.comprehension)):
            if _two_stars(node.target):
                return "illegal:two-stars"
        # children with the right context
        if isinstance(node, (ast.For, ast.While)):
            for f in ("target", "iter", "test"):
                c = getattr(node, f, None)
                if c is not None:
                    stack.append((c, in_loop, in_func))
            for s in node.body:
                stack.append((s, True, in_func))
            for s in node.orelse:
                stack.append((s, in_loop, in_func))
        elif isinstance(node, (ast.FunctionDef, ast.Lambda)):
            if isinstance(node, ast.FunctionDef):
                for d in node.decorator_list:
                    stack.append((d, in_loop, in_func))
                if node.returns is not None:
                    stack.append((node.returns, in_loop, in_func))
                for s in node.body:
                    stack.append((s, False, True))
            else:
                stack.append((node.body, False, True))
            stack.append((node.args, in_loop, in_func))
        elif isinstance(node, ast.ClassDef):
            for c in list(node.bases) + list(node.keywords) + list(node.decorator_list):
                stack.append((c, in_loop, in_func))
            for s in node.body:
                stack.append((s, False, False))
        else:
            for c in ast.iter_child_nodes(node):
                stack.append((c, in_loop, in_func))
    return None


def cpython_refuses(code):
    """True if the source parses but CPython's compiler refuses it."""
    try:
        ast.parse(code)
    except (SyntaxError, ValueError):
        return False
    try:
        compile(code, "<s>", "exec")
    except SyntaxError:
        return True
    except (ValueError, RecursionError, MemoryError):
        return False
    return False


def identifiers(code):
    """Every identifier spelled in the source (names, params, attributes, defs, aliases, keywords)."""
    out = set()
    try:
        tree = ast.parse(code)
    except (SyntaxError, ValueError):
        return out
    for n in ast.walk(tree):
        if isinstance(n, ast.Name):
            out.add(n.id)
        elif isinstance(n, ast.arg):
            out.add(n.arg)
        elif isinstance(n, ast.Attribute):
            out.add(n.attr)
        elif isinstance(n, (ast.FunctionDef, ast.ClassDef, ast.AsyncFunctionDef)):
            out.add(n.name)
        elif isinstance(n, ast.alias):
            out.update(n.name.split("."))
            if n.asname:
                out.add(n.asname)
        elif isinstance(n, ast.keyword) and n.arg:
            out.add(n.arg)
        elif isinstance(n, (ast.Global, ast.Nonlocal)):
            out.update(n.names)
    return out
