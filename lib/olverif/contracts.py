"""M1: post-condition contracts on the real functions of the tree under test.

Installed from the harness (no edit of /repo), with icontract when it can be imported and with
an equivalent 20-line shim otherwise. Conditions *record and return True*: they never abort the
computation they observe; each check drains the monitor log after every case.

Both `oneliner.<name>` (package attribute, early-bound by `from ... import`) and the defining
module attribute are patched; every contract counts its evaluations - zero evaluations means
the monitor was never reached and is reported as inconclusive, never as a pass.
"""
import ast
import sys

from . import astnorm, unsupported


class Monitor:
    def __init__(self):
        self.evals = {}
        self.events = []
        self.engine = None
        self.session = None   # per convert_code_string call: issued temporaries
        self.enabled = True

    def hit(self, name):
        self.evals[name] = self.evals.get(name, 0) + 1

    def event(self, monitor, prop, detail, inp):
        if len(self.events) < 200:
            self.events.append({"monitor": monitor, "prop": prop, "detail": detail, "input": inp})

    def drain(self, prop=None):
        ev = self.events
        self.events = []
        if prop is None:
            return ev
        return [e for e in ev if e["prop"] == prop]

    def summary(self):
        return {"engine": self.engine, "evaluations": dict(self.evals)}


MON = Monitor()


# ---------------------------------------------------------------- conditions (named functions)

def _cfg_tuple(configs):
    if configs is None:
        return None
    try:
        return [configs.unparser, configs.expr_wrapper, configs.if_style]
    except Exception:
        return "?"


def post_single_line_expression(code, configs, result):
    """C02: whatever is returned is one physical line that compiles in eval mode."""
    if not MON.enabled:
        return True
    MON.hit("C02.single-line-expression")
    if not isinstance(result, str):
        MON.event("C02.single-line-expression", "C02", "returned %s" % type(result).__name__,
                  {"source": code, "cfg": _cfg_tuple(configs)})
        return True
    if "\n" in result or "\r" in result:
        MON.event("C02.single-line-expression", "C02", "newline",
                  {"source": code, "cfg": _cfg_tuple(configs)})
        return True
    try:
        compile(result, "<oneliner>", "eval")
    except (SyntaxError, ValueError) as e:
        MON.event("C02.single-line-expression", "C02", "not-expr",
                  {"source": code, "cfg": _cfg_tuple(configs), "msg": str(e)[:100]})
    except (RecursionError, MemoryError):
        MON.hit("C02.compile-resource-inconclusive")
    return True


def post_rejects_unsupported(code, configs, result):
    """C08: a conversion that *returns* had no unsupported construct in its source."""
    if not MON.enabled:
        return True
    MON.hit("C08.rejects-unsupported")
    try:
        why = unsupported.find(code)
    except RecursionError:
        MON.hit("C08.walker-recursion-inconclusive")
        return True
    if why:
        MON.event("C08.rejects-unsupported", "C08", why, {"source": code, "cfg": _cfg_tuple(configs)})
    return True


def roundtrip_verdict(node, result):
    """None if `result` parses back to `node` (normal form), else a symptom string."""
    if not isinstance(result, str):
        return "non-str"
    if "\n" in result or "\r" in result:
        return "newline"
    try:
        if isinstance(node, ast.Starred):
            # a bare starred element is not an expression by itself (the repository's tests unparse one):
            # it is judged inside a list display, the smallest context in which it can be parsed
            back = ast.parse("[" + result + "]", mode="eval").body.elts[0]
        else:
            back = ast.parse(result, mode="eval").body
    except (SyntaxError, ValueError, IndexError):
        return "unparseable"
    except (RecursionError, MemoryError):
        return "inconclusive"
    try:
        a, b = astnorm.norm(node), astnorm.norm(back)
    except RecursionError:
        return "inconclusive"
    if a != b:
        return "mismatch"
    return None


def post_unparse_roundtrip(node, result):
    """C03/C04: expr_unparse(T) is one line that parses back to T."""
    if not MON.enabled:
        return True
    MON.hit("C03.roundtrip")
    v = roundtrip_verdict(node, result)
    if v == "inconclusive":
        MON.hit("C03.roundtrip-inconclusive")
    elif v:
        try:
            dumped = ast.dump(node)
        except RecursionError:
            dumped = "<deep>"
        MON.event("C03.roundtrip", "C03", v, {"tree": dumped[:4000], "text": result[:2000] if isinstance(result, str) else repr(result)})
    return True


def post_unescape(string, qm, result):
    """C04 (string part): quoting the result with qm gives back exactly `string`, on one line."""
    if not MON.enabled:
        return True
    MON.hit("C04.unescape")
    bad = None
    if "\n" in result or "\r" in result:
        bad = "newline"
    else:
        try:
            if ast.literal_eval(qm + result + qm) != string:
                bad = "value"
        except (SyntaxError, ValueError):
            bad = "unparseable"
    if bad:
        MON.event("C04.unescape", "C04", bad, {"string": repr(string), "qm": qm, "result": result[:300]})
    return True


# ---------------------------------------------------------------- C09(b): temporaries of one conversion

def _session_begin(code):
    MON.session = {"issued": [], "code": code}


def _session_end(code, configs, result):
    s, MON.session = MON.session, None
    if s is None or not MON.enabled:
        return
    MON.hit("C09.fresh-temporaries")
    issued = s["issued"]
    if not issued:
        return
    MON.evals["C09.temporaries-issued"] = MON.evals.get("C09.temporaries-issued", 0) + len(issued)
    if len(set(issued)) != len(issued):
        dup = sorted({n for n in issued if issued.count(n) > 1})
        MON.event("C09.fresh-temporaries", "C09", "duplicate temporary", {"source": code, "names": dup[:5]})
    try:
        idents = unsupported.identifiers(code)
    except RecursionError:
        return
    clash = sorted(set(issued) & idents)
    if clash:
        MON.event("C09.fresh-temporaries", "C09", "temporary equals a source identifier",
                  {"source": code, "names": clash[:5]})


# ---------------------------------------------------------------- installation

def _wrap(fn, posts, pre=None):
    """Attach post-conditions (named functions over the callee's argument names + result)."""
    try:
        import icontract  # noqa
        engine = "icontract"
    except Exception:
        icontract = None
        engine = "shim"
    MON.engine = engine
    if icontract is not None:
        wrapped = fn
        for cond in posts:
            wrapped = icontract.ensure(cond, error=AssertionError)(wrapped)
        return wrapped
    import functools
    import inspect
    sig = inspect.signature(fn)
    wanted = [(c, [p for p in inspect.signature(c).parameters]) for c in posts]

    @functools.wraps(fn)
    def shim(*a, **k):
        result = fn(*a, **k)
        ba = sig.bind(*a, **k)
        ba.apply_defaults()
        vals = dict(ba.arguments, result=result)
        for c, names in wanted:
            c(**{n: vals[n] for n in names})
        return result
    return shim


_installed = False


def install():
    """Patch the tree under test. Idempotent."""
    global _installed
    if _installed:
        return
    _installed = True
    import oneliner
    pkg = sys.modules["oneliner"]
    m_unparse = sys.modules["oneliner.expr_unparse"]
    m_convert = sys.modules["oneliner.convert"]
    m_utils = sys.modules.get("oneliner.utils")
    m_res = sys.modules.get("oneliner.reserved_identifiers")

    # expr_unparse: defining module + package attribute (early bound by `from ... import`)
    if hasattr(m_unparse, "expr_unparse"):
        w = _wrap(m_unparse.expr_unparse, [post_unparse_roundtrip])
        m_unparse.expr_unparse = w
        if getattr(pkg, "expr_unparse", None) is not None:
            pkg.expr_unparse = w
    if hasattr(m_unparse, "get_unescaped_str"):
        m_unparse.get_unescaped_str = _wrap(m_unparse.get_unescaped_str, [post_unescape])

    # convert_code_string: C02 + C08 post-conditions, C09(b) session around the call
    if hasattr(pkg, "convert_code_string"):
        inner = _wrap(pkg.convert_code_string, [post_single_line_expression, post_rejects_unsupported])
        import functools

        @functools.wraps(inner)
        def convert_code_string(code, filename="<string>", configs=None):
            _session_begin(code)
            try:
                result = inner(code, filename, configs)
            except BaseException:
                MON.session = None
                raise
            _session_end(code, configs, result)
            return result
        pkg.convert_code_string = convert_code_string

    # temporaries: record every fresh name issued while a conversion is running
    def _record(fn):
        import functools

        @functools.wraps(fn)
        def rec(*a, **k):
            r = fn(*a, **k)
            if MON.session is not None and isinstance(r, str):
                MON.session["issued"].append(r)
            return r
        return rec
    if m_res is not None and hasattr(m_res, "ol_name"):
        orig = m_res.ol_name
        w = _record(orig)
        for m in list(sys.modules.values()):
            if m is not None and getattr(m, "__name__", "").startswith("oneliner") \
                    and getattr(m, "ol_name", None) is orig:
                setattr(m, "ol_name", w)
        m_res.ol_name = w
