"""Runtime side of the C15 cross-version monitor. Must run on Python 3.8+ and imports nothing of the harness.

usage: runtime_runner.py records.json results.json
records: list of {"id":..., "src":..., "out":...}; for each: run the original and the one-liner in fresh
namespaces on *this* interpreter and report what happened.
"""
import contextlib
import io
import json
import signal
import sys


class TO(BaseException):
    pass


def _al(*a):
    raise TO()


def run(kind, text, pre=None):
    b = io.StringIO()
    ns = {"__name__": "__main__"}
    if pre:
        # observation helpers of the harness (never converted): the same text is executed into both namespaces
        exec(compile(pre, "<pre>", "exec"), ns)
    try:
        co = compile(text, "<" + kind + ">", "exec" if kind == "source" else "eval")
    except (SyntaxError, ValueError) as e:
        return "compile-error", str(e)[:80], ""
    except (RecursionError, MemoryError) as e:
        return "compile-resource", type(e).__name__, ""
    signal.alarm(10)
    try:
        with contextlib.redirect_stdout(b):
            if kind == "source":
                exec(co, ns)
            else:
                eval(co, ns)
    except TO:
        return "timeout", "", b.getvalue()
    except BaseException as e:
        return "raise:" + type(e).__name__, str(e)[:80], b.getvalue()
    finally:
        signal.alarm(0)
    return "ok", "", b.getvalue()


def main():
    signal.signal(signal.SIGALRM, _al)
    records = json.load(open(sys.argv[1]))
    results = []
    cache = {}
    for r in records:
        if r["src"] not in cache:
            cache[r["src"]] = run("source", r["src"], r.get("pre"))
        s1, m1, o1 = cache[r["src"]]
        if s1 != "ok":
            results.append({"id": r["id"], "orig": s1, "omsg": m1})
            continue
        s2, m2, o2 = run("oneliner", r["out"], r.get("pre"))
        results.append({"id": r["id"], "orig": "ok", "out": s2, "msg": m2, "same": s2 == "ok" and o1 == o2,
                        "expected": o1[-200:] if o1 != o2 else "", "observed": o2[-200:] if o1 != o2 else ""})
    json.dump({"python": "%d.%d" % sys.version_info[:2], "results": results}, open(sys.argv[2], "w"))


if __name__ == "__main__":
    main()
