"""pytest plugin: runs the repository's own test suite with the M1 contracts installed (one more workload).

Loaded only by the harness (`-p olverif.pytest_plugin` with ONELINER_PY_VERIF=1); with the guard off it does
nothing, so the baseline command is byte-for-byte unaffected. At session end the monitor log is written to
$OLVERIF_PYTEST_OUT.
"""
import json
import os

_ON = os.environ.get("ONELINER_PY_VERIF") == "1"


def pytest_configure(config):
    if not _ON:
        return
    import oneliner  # noqa: F401  (the tree under test, first on sys.path via PYTHONPATH)
    from olverif import contracts
    contracts.install()


def pytest_sessionfinish(session, exitstatus):
    if not _ON:
        return
    from olverif import contracts
    import oneliner
    out = os.environ.get("OLVERIF_PYTEST_OUT")
    if out:
        with open(out, "w") as f:
            json.dump({"exitstatus": int(exitstatus), "oneliner_file": oneliner.__file__,
                       "summary": contracts.MON.summary(), "events": contracts.MON.events[:100]}, f, default=repr)
