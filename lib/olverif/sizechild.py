"""Child process of the C17 resource monitor: one (program, options) point at the default recursion limit.

stdin: JSON {"src":..., "cfg":[...], "repo":...}; stdout: one JSON line with the stage reached.
Stages: source-compile -> source-run -> convert -> output-compile -> output-eval -> compare.
"""
import contextlib
import io
import json
import sys
import traceback


def where(tb, repo):
    """How many traceback frames are in the tree under test / in the stdlib."""
    n_repo = n_std = 0
    files = {}
    for fs in traceback.extract_tb(tb):
        if fs.filename.startswith(repo):
            n_repo += 1
        else:
            n_std += 1
        files[fs.filename.split("/")[-1]] = files.get(fs.filename.split("/")[-1], 0) + 1
    top = sorted(files.items(), key=lambda kv: -kv[1])[:3]
    return {"repo_frames": n_repo, "other_frames": n_std, "top_files": top}


def main():
    req = json.loads(sys.stdin.read())
    repo = req["repo"]
    sys.path.insert(0, repo)
    r = {"stage": "source-compile"}
    src = req["src"]
    try:
        co = compile(src, "<s>", "exec")
        r["stage"] = "source-run"
        b = io.StringIO()
        with contextlib.redirect_stdout(b):
            exec(co, {"__name__": "__main__"})
        want = b.getvalue()
    except BaseException as e:
        r["source_error"] = type(e).__name__ + ":" + str(e)[:80]
        print(json.dumps(r))
        return
    import oneliner
    from oneliner.config import Configs
    assert oneliner.__file__.startswith(repo), oneliner.__file__
    # max depth of frames of the tree under test (evidence only)
    depth = {"max": 0, "cur": 0}

    def prof(frame, event, arg):
        if event == "call" and frame.f_code.co_filename.startswith(repo):
            depth["cur"] += 1
            if depth["cur"] > depth["max"]:
                depth["max"] = depth["cur"]
        elif event == "return" and frame.f_code.co_filename.startswith(repo):
            depth["cur"] -= 1
    c = Configs()
    c.unparser, c.expr_wrapper, c.if_style = req["cfg"]
    r["stage"] = "convert"
    try:
        if req.get("profile"):
            sys.setprofile(prof)
        try:
            out = oneliner.convert_code_string(src, configs=c)
        finally:
            sys.setprofile(None)
        r["oneliner_frame_depth"] = depth["max"]
        r["out_chars"] = len(out)
        r["stage"] = "output-compile"
        co2 = compile(out, "<o>", "eval")
        r["stage"] = "output-eval"
        b = io.StringIO()
        with contextlib.redirect_stdout(b):
            eval(co2, {"__name__": "__main__"})
        r["stage"] = "compare"
        r["same"] = b.getvalue() == want
        if r["same"]:
            r["stage"] = "done"
    except BaseException as e:
        r["error"] = type(e).__name__
        r["msg"] = str(e)[:100]
        r["where"] = where(e.__traceback__, repo)
    print(json.dumps(r))


if __name__ == "__main__":
    main()
