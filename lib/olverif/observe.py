"""M2/M3: differential monitor. CPython executing the source is the reference model.

`differential()` runs exec(source) and eval(convert(source)) in fresh namespaces built by the
same environment factory, captures stdout, compares event logs, stdout and final user globals.
"""
import contextlib
import io
import re
import types

from . import rt


class Fuel(Exception):
    """Raised by probe objects when the shared logical step budget is exhausted."""


HELPER_MODULES = ("itertools", "importlib")
_ADDR = re.compile(r" at 0x[0-9a-fA-F]+")
_OLNAME = re.compile(r"__ol_[A-Za-z0-9_]+")

META_ATTRS = {
    "__module__", "__dict__", "__weakref__", "__doc__", "__qualname__", "__name__",
    "__firstlineno__", "__static_attributes__", "__annotations__", "__annotate__", "__annotate_func__",
    "__annotations_cache__", "__type_params__", "__classcell__", "__classdictcell__",
}


def canon(v, memo=None, depth=0):
    """Canonical, address-free, metadata-free description of a value."""
    if memo is None:
        memo = {}
    if v is None or v is Ellipsis or isinstance(v, (bool, int, float, complex, str, bytes)):
        return repr(v)
    if id(v) in memo:
        return "<cycle>"
    if depth > 8:
        return "<deep>"
    memo[id(v)] = True
    try:
        if isinstance(v, (list, tuple)):
            return [type(v).__name__] + [canon(x, memo, depth + 1) for x in v]
        if isinstance(v, (set, frozenset)):
            return [type(v).__name__] + sorted((canon(x, memo, depth + 1) for x in v), key=repr)
        if isinstance(v, dict):
            return ["dict"] + [[canon(k, memo, depth + 1), canon(x, memo, depth + 1)] for k, x in v.items()]
        if isinstance(v, types.ModuleType):
            return "<module %s>" % v.__name__
        if isinstance(v, type):
            attrs = {}
            for k, x in vars(v).items():
                if k in META_ATTRS or _OLNAME.fullmatch(k):
                    continue
                attrs[k] = canon(x, memo, depth + 1)
            return ["class", [b.__name__ for b in v.__mro__[1:]], type(v).__name__, sorted(attrs.items())]
        if isinstance(v, (staticmethod, classmethod)):
            return "<%s>" % type(v).__name__
        if isinstance(v, property):
            return "<property %d%d%d>" % (v.fget is not None, v.fset is not None, v.fdel is not None)
        if callable(v) and not hasattr(v, "__dict__"):
            return "<callable>"
        if isinstance(v, (types.FunctionType, types.BuiltinFunctionType, types.MethodType)):
            return "<callable>"
        if isinstance(v, (range, slice)):
            return repr(v)
        d = getattr(v, "__dict__", None)
        if isinstance(d, dict):
            return ["obj", type(v).__name__, sorted((k, canon(x, memo, depth + 1)) for k, x in d.items())]
        if callable(v):
            return "<callable>"
        if isinstance(v, types.GeneratorType):
            # its repr carries the code object's qualified name (metadata: <genexpr> vs <lambda>.<genexpr>)
            return "<generator>"
        r = _ADDR.sub("", repr(v))
        if r.startswith("<") and " object" in r:
            return "<%s object>" % type(v).__name__
        return r
    finally:
        del memo[id(v)]


def user_globals(g):
    out = {}
    for k, v in g.items():
        if k.startswith("__") and k.endswith("__"):
            continue
        out[k] = v
    return out


def compare_globals(g1, g2, injected=()):
    """g1: after exec(source); g2: after eval(translation). Returns (symptom, detail) or None."""
    u1, u2 = user_globals(g1), user_globals(g2)
    missing = [k for k in u1 if k not in u2 and k not in injected]
    if missing:
        return "globals-missing", sorted(missing)[:5]
    extra = [k for k in u2 if k not in u1 and not k.startswith("__ol_") and k not in HELPER_MODULES
             and k not in injected]
    if extra:
        return "globals-extra", sorted(extra)[:5]
    diff = []
    for k in u1:
        if k in injected:
            continue
        try:
            if canon(u1[k]) != canon(u2[k]):
                diff.append(k)
        except Exception as e:  # canonicaliser must never decide a verdict by crashing
            return None
    if diff:
        return "globals-value", sorted(diff)[:5]
    return None


class Outcome:
    __slots__ = ("status", "detail", "out", "log1", "log2", "stdout1", "stdout2", "g1", "g2")

    def __init__(self, status, detail=None, out=None):
        self.status = status
        self.detail = detail
        self.out = out
        self.log1 = self.log2 = None
        self.stdout1 = self.stdout2 = None
        self.g1 = self.g2 = None

    @property
    def ok(self):
        return self.status == "ok"

    @property
    def ood(self):
        return self.status.startswith("ood:")


def first_divergence(l1, l2):
    n = min(len(l1), len(l2))
    for i in range(n):
        if l1[i] != l2[i]:
            return i
    return n


def default_env():
    return {"__name__": "__main__"}, []


def convert(src, cfg, filename="<string>"):
    """(text, None) or (None, 'convert-raise:<Type>')."""
    ol = rt.load_oneliner()
    try:
        if cfg is None:
            return ol.convert_code_string(src, filename), None
        return ol.convert_code_string(src, filename, rt.mkcfg(cfg)), None
    except (rt.CaseTimeout, KeyboardInterrupt):
        raise
    except BaseException as e:
        return None, "convert-raise:" + type(e).__name__


def compile_out(out):
    """(code, None) or (None, symptom)."""
    if "\n" in out or "\r" in out:
        return None, "newline"
    try:
        return compile(out, "<oneliner>", "eval"), None
    except (SyntaxError, ValueError):
        return None, "not-expr"
    except (RecursionError, MemoryError):
        return None, "ood:compile-resource"


def differential(src, cfg, mkenv=default_env, globals_cmp=True, injected=None, keep=False,
                 pre_converted=None):
    """Run original and translation. mkenv() -> (namespace, event log list)."""
    try:
        co1 = compile(src, "<source>", "exec")
    except (SyntaxError, ValueError) as e:
        return Outcome("ood:src-syntax", str(e)[:80])
    except (RecursionError, MemoryError):
        return Outcome("ood:src-resource")
    except SystemError as e:
        # the reference interpreter's own compiler gave up (measured: CPython 3.12 `_PyST_GetScope(name='__class__') failed`
        # for a class body that binds and reads the spelling `super`): no reference, no verdict
        return Outcome("ood:src-compiler-internal-error", str(e)[:80])
    g1, log1 = mkenv()
    inj = set(g1) if injected is None else set(injected)
    b1 = io.StringIO()
    try:
        with contextlib.redirect_stdout(b1):
            exec(co1, g1)
    except Fuel:
        return Outcome("ood:fuel")
    except (rt.CaseTimeout, KeyboardInterrupt):
        raise
    except BaseException as e:
        return Outcome("ood:src-raise:" + type(e).__name__, str(e)[:80])

    if pre_converted is not None:
        out, err = pre_converted
    else:
        out, err = convert(src, cfg)
    if err:
        return Outcome(err)
    co2, err = compile_out(out)
    if err:
        return Outcome(err, out=out)
    g2, log2 = mkenv()
    b2 = io.StringIO()
    raised = None
    try:
        with contextlib.redirect_stdout(b2):
            eval(co2, g2)
    except Fuel:
        raised = "fuel"
    except (rt.CaseTimeout, KeyboardInterrupt):
        raise
    except BaseException as e:
        raised = "eval-raise:" + type(e).__name__
        detail = str(e)[:100]
    o = Outcome("ok", out=out)
    if keep:
        o.log1, o.log2, o.stdout1, o.stdout2, o.g1, o.g2 = log1, log2, b1.getvalue(), b2.getvalue(), g1, g2
    if raised:
        o.status = raised
        i = first_divergence(log1, log2)
        o.detail = {"msg": detail if raised != "fuel" else "", "at_event": i,
                    "expected_next": repr(log1[i:i + 3]), "observed_tail": repr(log2[max(0, i - 2):i + 3])}
        return o
    if log1 != log2:
        i = first_divergence(log1, log2)
        kind = None
        for ev in (log1[i:i + 1] + log2[i:i + 1]):
            if isinstance(ev, (tuple, list)) and ev:
                kind = ev[0]
                break
        o.status = "trace-diff" + (":" + str(kind) if kind is not None else "")
        o.detail = {"at_event": i, "expected": repr(log1[max(0, i - 2):i + 3]),
                    "observed": repr(log2[max(0, i - 2):i + 3]), "len": [len(log1), len(log2)]}
        return o
    if b1.getvalue() != b2.getvalue():
        s1, s2 = b1.getvalue(), b2.getvalue()
        i = first_divergence(s1, s2)
        o.status = "stdout-diff"
        o.detail = {"at_char": i, "expected": s1[max(0, i - 40):i + 60], "observed": s2[max(0, i - 40):i + 60]}
        return o
    if globals_cmp:
        r = compare_globals(g1, g2, inj)
        if r:
            o.status, o.detail = r
            return o
    return o


# ---------------------------------------------------------------- a defect of the *running* interpreter, not of the text

SCOPES_LOG_PRELUDE = (
    "def log(*a):\n    a = list(a)\n    v = a[-1]\n"
    "    if callable(v) or isinstance(v, type) or type(v).__name__ == 'module':\n        a[-1] = type(v).__name__\n"
    "    print(tuple(map(repr, a)))\n    return a[-1]\n")


def text_is_right_on_neighbour_runtimes(src, out, pre=None, runtimes=("3.10", "3.11")):
    """CPython 3.12.1 and 3.13.0 miscompile *correct* text of one shape (comprehension inlining, PEP 709): two sibling inlined
    comprehensions in one function, the first binds a name that the second reads as a global / free variable
    (`lambda: [[x for x in [1]], [x for t in [2]]]` -> UnboundLocalError; 3.10 and 3.11, which give every comprehension its
    own function, evaluate it correctly, and PEP 709 claims unchanged semantics). The property is about the emitted text,
    so before such an UnboundLocalError is counted as a violation the same (source, text) pair is run by the real 3.10 and
    3.11 binaries: True iff on each of them the original runs and the text prints exactly what the original prints.
    None if an interpreter is missing."""
    import json
    import os
    import shutil
    import subprocess
    import tempfile
    from . import envs
    runner = os.path.join(envs.LIB, "olverif", "runtime_runner.py")
    work = tempfile.mkdtemp(prefix="olverif-nb-")
    try:
        rp = os.path.join(work, "r.json")
        json.dump([{"id": 0, "src": src, "out": out, "pre": pre}], open(rp, "w"))
        for v in runtimes:
            py = envs.interpreter(v)
            if not py:
                return None
            res = os.path.join(work, "o-%s.json" % v)
            try:
                subprocess.run([py, runner, rp, res], capture_output=True, timeout=120)
                r = json.load(open(res))["results"][0]
            except Exception:
                return None
            if r.get("orig") != "ok" or not r.get("same"):
                return False
        return True
    finally:
        shutil.rmtree(work, ignore_errors=True)


def interpreter_defect_312(o, src, pre=None):
    """-> inconclusive reason or None. Only for an UnboundLocalError raised by a >= 3.12 interpreter while evaluating a text
    that contains the sibling-comprehension shape (input-side predicate on the emitted tree) AND that the 3.10 and 3.11
    binaries evaluate exactly like the original."""
    import ast
    import sys
    from . import findings
    if sys.version_info[:2] < (3, 12) or o.status not in ("eval-raise:UnboundLocalError", "eval-raise:NameError") or not o.out:
        return None
    try:
        if not findings.cpython_sibling_inlined_comprehensions(ast.parse(o.out, mode="eval")):
            return None
    except (SyntaxError, ValueError, RecursionError, MemoryError):
        return None
    if text_is_right_on_neighbour_runtimes(src, o.out, pre) is True:
        return "reference-model-defect:cpython>=3.12 inlined-comprehension variable clash (text is right on 3.10 and 3.11)"
    return None
