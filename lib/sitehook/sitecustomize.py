"""Audit hook for the CLI subprocess (C16): logs every `open` event of the real `python -m oneliner`
process and optionally seeds `random` in the child so that CLI and library text can be compared byte for byte."""
import os
import sys

_p = os.environ.get("OLVERIF_AUDIT_LOG")
if _p:
    _f = open(_p, "a", buffering=1)
    _seed = os.environ.get("OLVERIF_RANDOM_SEED")

    def _hook(ev, args, _f=_f):
        if ev == "open":
            try:
                _f.write("open\t%r\t%r\n" % (args[0], args[1]))
            except Exception:
                pass
    sys.addaudithook(_hook)
    if _seed is not None:
        import random
        random.seed(int(_seed))
