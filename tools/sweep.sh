#!/bin/sh
# usage: tools/sweep.sh <tier> <seed>...   runs every check for every seed, evidence/replays redirected to a scratch dir
HERE="$(cd "$(dirname "$0")/.." && pwd)"
TIER=$1; shift
OUT=$(mktemp -d /tmp/olsweep-XXXXXX)
for SEED in "$@"; do
  for C in C01 C02 C03 C04 C05 C06 C07 C08 C09 C10 C11 C12 C13 C14 C15 C16 C17; do
    OLVERIF_OUT=$OUT VERIF_SEED=$SEED "$HERE/bin/check" $C --tier $TIER > $OUT/$C-$SEED.log 2>&1
    echo "rc=$? $(tail -1 $OUT/$C-$SEED.log | cut -c1-220)"
    grep -c '^VIOLATION' $OUT/$C-$SEED.log | grep -v '^0$' | sed "s/^/   VIOLATIONS: /"
  done
done
echo "logs and replays in $OUT"
