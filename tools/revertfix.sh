#!/bin/sh
# usage: tools/revertfix.sh <fix-commit> <CHECK>...   the check must fire again when a repair is undone (scratch clone)
HERE="$(cd "$(dirname "$0")/.." && pwd)"
C=$1; shift
T=$(mktemp -d /tmp/olrevert-XXXXXX)
git clone -q --no-hardlinks /repo $T/repo || exit 2
if ! git -C $T/repo -c user.email=x@x -c user.name=x revert --no-edit $C >/dev/null 2>&1; then echo "revert of $C conflicts"; rm -rf $T; exit 2; fi
for K in "$@"; do
  OLVERIF_REPO=$T/repo OLVERIF_OUT=$T/out "$HERE/bin/check" $K --tier quick > $T/$K.log 2>&1
  echo "revert $C: $K rc=$? violations=$(grep -c '^VIOLATION' $T/$K.log) $(grep -m1 -A1 '^VIOLATION' $T/$K.log | tail -1 | cut -c1-160)"
done
rm -rf $T
