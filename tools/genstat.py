#!/usr/bin/env python3
"""Generator statistics: validity rate, features, hangs (per-case alarm). usage: genstat.py N [start]"""
import collections
import contextlib
import io
import os
import signal
import sys
import time

sys.path.insert(0, os.path.join(os.path.dirname(os.path.dirname(os.path.abspath(__file__))), "lib"))
from olverif.gen import progs  # noqa


class TO(BaseException):
    pass


def _al(*a):
    raise TO()


signal.signal(signal.SIGALRM, _al)
n = int(sys.argv[1])
start = int(sys.argv[2]) if len(sys.argv) > 2 else 0
ok = 0
feats = collections.Counter()
bad = collections.Counter()
ex = {}
t0 = time.time()
for seed in range(start, start + n):
    src, f = progs.generate(seed)
    signal.alarm(3)
    try:
        co = compile(src, "<s>", "exec")
        with contextlib.redirect_stdout(io.StringIO()):
            exec(co, {"__name__": "__main__"})
        ok += 1
        feats.update(f)
    except TO:
        bad["TIMEOUT"] += 1
        ex.setdefault("TIMEOUT", seed)
    except BaseException as e:
        k = type(e).__name__ + ":" + str(e)[:60]
        bad[k] += 1
        ex.setdefault(k, seed)
    finally:
        signal.alarm(0)
print("ok", ok, "of", n, "in %.1fs" % (time.time() - t0))
for k, v in bad.most_common(15):
    print("  ", v, k, "seed", ex[k])
print(dict(feats))
