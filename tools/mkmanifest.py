#!/usr/bin/env python3
"""Regenerates /verif/MANIFEST.json from the metadata of the check modules that exist."""
import importlib
import json
import os
import sys

HERE = os.path.dirname(os.path.dirname(os.path.abspath(__file__)))
sys.path.insert(0, os.path.join(HERE, "lib"))

PROPS = [json.loads(l)["id"] for l in open(os.path.join(HERE, "properties.jsonl")) if l.strip()]

checks = []
not_applicable = []
for pid in PROPS:
    try:
        mod = importlib.import_module("olverif.checks." + pid.lower())
    except ImportError:
        not_applicable.append({"property_id": pid, "reason": "check not built yet (work in progress); the "
                               "property is within reach of runtime monitoring, see DESIGN.md section 4"})
        continue
    if getattr(mod, "DISABLED", None):
        not_applicable.append({"property_id": pid, "reason": mod.DISABLED})
        continue
    checks.append({
        "property_id": pid,
        "quick_cmd": "bin/check %s --tier quick" % pid,
        "thorough_cmd": "bin/check %s --tier thorough" % pid,
        "evidence_file": "evidence/%s.json" % pid,
        "replay_cmd_template": "bin/check %s --replay {path}" % pid,
        "engine": "olverif",
        "level_claimed": {
            "category": getattr(mod, "LEVEL", "exploration"),
            "text": getattr(mod, "LEVEL_TEXT", mod.RULE),
            "design_ref": "DESIGN.md section 4, %s" % pid,
        },
        "level_note": "; ".join(getattr(mod, "ASSUMPTIONS", [])),
        "technique": getattr(mod, "TECHNIQUE", "runtime monitoring"),
    })

manifest = {
    "version": 1,
    "setup_cmd": "bin/setup",
    "hooks": {
        "guard": "ONELINER_PY_VERIF",
        "enable": "no source hooks are needed: with ONELINER_PY_VERIF=1 the harness patches contracts onto "
                  "the real functions of /repo's working tree at import time (lib/olverif/contracts.py); "
                  "/repo is imported in place, nothing is built",
        "baseline_off_cmd": "cd /repo && /venv/bin/python -m pytest -q -p no:cacheprovider oneliner_tests",
        "source_commits": [],
        "add_only": True,
    },
    "engines": [{
        "name": "olverif",
        "path": "lib/olverif",
        "serves_properties": [c["property_id"] for c in checks],
        "kind_free_text": "runtime monitoring: icontract post-conditions on the real functions, differential "
                          "exec-vs-eval monitor with CPython as executable reference model, probe-trace monitors, "
                          "history monitor against a sequential model, subprocess resource monitor",
    }],
    "checks": checks,
    "not_applicable": not_applicable,
    "notes": "Every check imports oneliner from /repo's current working tree (OLVERIF_REPO overrides the path for "
             "mutation self-tests). Exit 0 = held on everything observed, 1 = VIOLATION lines, 2 = inconclusive "
             "(monitor floor not reached / worker crashed), never folded into held. Known findings: "
             "known_findings.json (committed, read-only at run time).",
}
with open(os.path.join(HERE, "MANIFEST.json"), "w") as f:
    json.dump(manifest, f, indent=1)
print("checks:", [c["property_id"] for c in checks])
print("not_applicable:", [c["property_id"] for c in not_applicable])
