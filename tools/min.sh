#!/bin/sh
# usage: tools/min.sh replays/C01/xxx.json  -> minimal failing source
HERE="$(cd "$(dirname "$0")/.." && pwd)"
PYTHONPATH="$HERE/lib:$HERE/.deps" OLVERIF_REPO="${OLVERIF_REPO:-/repo}" PYTHONDONTWRITEBYTECODE=1 exec ${PY:-/venv/bin/python} -m olverif.minimize "$@"
