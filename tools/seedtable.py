#!/usr/bin/env python3
"""Regenerates the seeded-changes table of DESIGN.md from seeded/*/meta.json (between the two markers)."""
import glob
import json
import os
import re

HERE = os.path.dirname(os.path.dirname(os.path.abspath(__file__)))
rows = []
for d in sorted(glob.glob(os.path.join(HERE, "seeded", "*"))):
    mp = os.path.join(d, "meta.json")
    if not os.path.exists(mp):
        continue
    m = json.load(open(mp))
    name = os.path.basename(d)
    caught = ", ".join(m.get("caught_by", [])) or "**missed**"
    if not m.get("valid", False):
        caught = "(not valid: %s)" % (m.get("status") or m.get("confirmed", {}))
    rows.append("| %s | %s | %s | %s |" % (name, (m.get("mechanism", "") + " — needs: " + m.get("needs", "")).replace("|", "/"),
                                           caught, m.get("strengthening", "—").replace("|", "/")))
p = os.path.join(HERE, "DESIGN.md")
s = open(p).read()
block = "<!-- seeded-table-begin -->\n" + "\n".join(rows) + "\n<!-- seeded-table-end -->"
if "SEEDED_TABLE_PLACEHOLDER" in s:
    s = s.replace("SEEDED_TABLE_PLACEHOLDER", block)
else:
    s = re.sub(r"<!-- seeded-table-begin -->.*?<!-- seeded-table-end -->", lambda _: block, s, flags=re.S)
open(p, "w").write(s)
print(len(rows), "rows")
