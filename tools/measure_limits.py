#!/usr/bin/env python3
"""Measure the size limits of C17 families that lie *outside* the converter (KF-size-limits table entries).

  tools/measure_limits.py FAMILY... > entries.json     (then merged into known_findings.json by hand - never at check time)

For every family x option combination x host 3.10-3.13 the geometric schedule is run until the first failing N. A failing point
is accepted as a table entry only if its location is outside oneliner: the standard library's recursive ast.unparse
(top frames in ast.py, at most 6 oneliner frames) or CPython's own parser/compiler refusing the *output* (no oneliner frame).
Anything else is printed as UNEXPLAINED and must be looked at (it would be a violation).
"""
import json
import os
import sys

sys.path.insert(0, os.path.join(os.path.dirname(os.path.dirname(os.path.abspath(__file__))), "lib"))
from olverif import envs            # noqa: E402
from olverif.checks import c17      # noqa: E402


def classify(r):
    loc = r.get("where") or {}
    top = [f for f, _ in loc.get("top_files", [])]
    if r.get("stage") == "convert" and r.get("error") == "RecursionError" and top[:1] == ["ast.py"] and loc.get("repo_frames", 0) <= 6:
        return "stdlib-ast"
    if r.get("stage") in ("output-compile",) and loc.get("repo_frames", 0) == 0:
        return "compiler"
    return None


def main():
    out = {}
    for fam in sys.argv[1:]:
        for cfg in envs.CFGS:
            for host in ("3.10", "3.11", "3.12", "3.13"):
                py = envs.interpreter(host)
                for n in [2 ** k for k in range(1, 15)]:
                    src = c17.FAM[fam](n)
                    r = c17.run_point(src, cfg, py=py)
                    st = r.get("stage")
                    if st == "done":
                        continue
                    if st in ("source-compile", "source-run"):
                        break
                    loc = classify(r)
                    if loc is None:
                        print("UNEXPLAINED", fam, cfg, host, n, json.dumps(r)[:300], file=sys.stderr)
                        break
                    out.setdefault(fam + "|" + ",".join(cfg), {})[host] = {"min_n": n, "stage": st, "error": r.get("error"), "location": loc}
                    print(fam, cfg, host, n, st, r.get("error"), loc, file=sys.stderr)
                    break
    json.dump(out, sys.stdout, indent=1)


if __name__ == "__main__":
    main()
