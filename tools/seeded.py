#!/usr/bin/env python3
"""Validate and evaluate a seeded change produced by an independent sub-agent.

  tools/seeded.py import <src-dir> <PROP> <letter> [<as-letter>]   copy patch-<letter>.diff/demo/notes into seeded/<PROP>-<letter>/
  tools/seeded.py run <PROP>-<letter> [CHECK ...]       confirm (suite green, demo fails with / passes without the change)
                                                         and run the given checks (default: the property's own) against it

Everything runs on a scratch copy of /repo's HEAD outside /repo and /verif (OLVERIF_REPO), which is removed afterwards.
"""
import json
import os
import shutil
import subprocess
import sys
import tempfile
import time

VERIF = os.path.dirname(os.path.dirname(os.path.abspath(__file__)))
REPO = "/repo"


def sh(cmd, **kw):
    return subprocess.run(cmd, capture_output=True, text=True, **kw)


def scratch():
    tmp = tempfile.mkdtemp(prefix="olseed-")
    copy = os.path.join(tmp, "repo")
    sh(["git", "clone", "-q", "--no-hardlinks", REPO, copy])
    if os.environ.get("SEED_BASE"):
        # a seeded change whose context was later changed by a fix: commit in /repo is evaluated on the commit it was written for
        sh(["git", "-C", copy, "checkout", "-q", os.environ["SEED_BASE"]])
    return tmp, copy


def cmd_import(src, prop, letter, as_letter=None):
    d = os.path.join(VERIF, "seeded", "%s-%s" % (prop, as_letter or letter))
    os.makedirs(d, exist_ok=True)
    shutil.copy(os.path.join(src, "patch-%s.diff" % letter), os.path.join(d, "patch.diff"))
    shutil.copy(os.path.join(src, "demo-%s.py" % letter), os.path.join(d, "demo.py"))
    n = os.path.join(src, "notes-%s.md" % letter)
    if os.path.exists(n):
        shutil.copy(n, os.path.join(d, "notes.md"))
    print("imported", d)


def cmd_run(name, checks):
    d = os.path.join(VERIF, "seeded", name)
    prop = name.split("-")[0]
    checks = checks or [prop]
    meta_path = os.path.join(d, "meta.json")
    try:
        meta = json.load(open(meta_path))
    except Exception:
        meta = {"property": prop, "source": "independent sub-agent given only the property text and a scratch worktree"}
    tmp, copy = scratch()
    try:
        env = dict(os.environ, PYTHONPATH=copy, REPO=copy, PYTHONDONTWRITEBYTECODE="1")
        base_head = sh(["git", "-C", copy, "rev-parse", "--short", "HEAD"]).stdout.strip()
        clean = sh(["/venv/bin/python", os.path.join(d, "demo.py")], env=env, cwd=tmp)
        ap = sh(["git", "-C", copy, "apply", os.path.join(d, "patch.diff")])
        if ap.returncode:
            meta["status"] = "patch does not apply to HEAD %s: %s" % (base_head, ap.stderr[-200:])
            json.dump(meta, open(meta_path, "w"), indent=1)
            print(name, meta["status"])
            return
        suite = sh(["/venv/bin/python", "-m", "pytest", "-q", "-p", "no:cacheprovider", "oneliner_tests"], cwd=copy, env=env)
        demo = sh(["/venv/bin/python", os.path.join(d, "demo.py")], env=env, cwd=tmp)
        meta["confirmed"] = {
            "repo_head": base_head,
            "suite_with_change": (suite.stdout.strip().splitlines() or ["?"])[-1],
            "suite_green": suite.returncode == 0,
            "demo_exit_with_change": demo.returncode,
            "demo_exit_without_change": clean.returncode,
            "demo_output_with_change": (demo.stdout + demo.stderr)[-400:],
        }
        meta["valid"] = suite.returncode == 0 and demo.returncode == 1 and clean.returncode == 0
        res = meta.setdefault("checks", {})
        for c in checks:
            t0 = time.time()
            e = dict(os.environ, OLVERIF_REPO=copy, OLVERIF_OUT=os.path.join(tmp, "out"))
            r = sh([os.path.join(VERIF, "bin", "check"), c, "--tier", "quick"], env=e, cwd=VERIF)
            viol = [l for l in r.stdout.splitlines() if l.startswith("VIOLATION")]
            first = ""
            lines = r.stdout.splitlines()
            for i, l in enumerate(lines):
                if l.startswith("VIOLATION"):
                    first = "\n".join(lines[i:i + 2])[:500]
                    break
            res[c] = {"tier": "quick", "exit": r.returncode, "violation_lines": len(viol), "first": first, "base": os.environ.get("SEED_BASE") or "HEAD",
                      "summary": (lines[-1] if lines else r.stderr[-200:])[:300], "wall_s": round(time.time() - t0, 1)}
        meta["caught_by"] = sorted(c for c, v in res.items() if v["exit"] == 1 and v["violation_lines"])
        meta["what_was_run"] = "tools/seeded.py run %s %s (scratch clone of /repo HEAD %s + patch, OLVERIF_REPO)" % (name, " ".join(checks), base_head)
        json.dump(meta, open(meta_path, "w"), indent=1)
        print("%-10s valid=%s suite=%s demo(with/without)=%s/%s caught_by=%s %s" % (
            name, meta["valid"], meta["confirmed"]["suite_with_change"][:30], demo.returncode, clean.returncode, meta["caught_by"],
            {c: (v["exit"], v["violation_lines"], v["wall_s"]) for c, v in res.items() if c in checks}))
    finally:
        shutil.rmtree(tmp, ignore_errors=True)


def cmd_rerun_all(out_path):
    """Regression test of the checks themselves: every seeded change whose patch still applies to /repo's HEAD must still be
    caught by the check(s) recorded in its meta.json (suite/demo are not re-validated here). Writes a summary JSON."""
    rows = []
    for name in sorted(os.listdir(os.path.join(VERIF, "seeded"))):
        d = os.path.join(VERIF, "seeded", name)
        try:
            meta = json.load(open(os.path.join(d, "meta.json")))
        except Exception:
            continue
        want = meta.get("caught_by") or [name.split("-")[0]]
        own = name.split("-")[0]
        check = own if own in want else want[0]
        tmp, copy = scratch()
        try:
            head = sh(["git", "-C", copy, "rev-parse", "--short", "HEAD"]).stdout.strip()
            ap = sh(["git", "-C", copy, "apply", os.path.join(d, "patch.diff")])
            if ap.returncode:
                rows.append({"seed": name, "head": head, "status": "patch no longer applies (context changed by later repairs)"})
                print("%-8s does not apply to %s" % (name, head), flush=True)
                continue
            t0 = time.time()
            e = dict(os.environ, OLVERIF_REPO=copy, OLVERIF_OUT=os.path.join(tmp, "out"))
            r = sh([os.path.join(VERIF, "bin", "check"), check, "--tier", "quick"], env=e, cwd=VERIF)
            nviol = sum(1 for l in r.stdout.splitlines() if l.startswith("VIOLATION"))
            rows.append({"seed": name, "head": head, "check": check, "exit": r.returncode, "violation_lines": nviol,
                         "caught": r.returncode == 1 and nviol > 0, "wall_s": round(time.time() - t0, 1)})
            print("%-8s %s exit=%d violations=%d" % (name, check, r.returncode, nviol), flush=True)
        finally:
            shutil.rmtree(tmp, ignore_errors=True)
        json.dump(rows, open(out_path, "w"), indent=1)
    app = [r for r in rows if "check" in r]
    print("applied %d of %d; caught %d; missed %s" % (len(app), len(rows), sum(r["caught"] for r in app), [r["seed"] for r in app if not r["caught"]]))


if __name__ == "__main__":
    if sys.argv[1] == "rerun-all":
        cmd_rerun_all(sys.argv[2] if len(sys.argv) > 2 else os.path.join(VERIF, "seeded", "RERUN.json"))
    elif sys.argv[1] == "import":
        cmd_import(*sys.argv[2:6])
    elif sys.argv[1] == "run":
        cmd_run(sys.argv[2], sys.argv[3:])
