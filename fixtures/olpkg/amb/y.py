import builtins; builtins.__dict__.setdefault('_OLLOG', []).append(__name__)
val = __name__ + '.val'
from . import x as _sibling   # an import performed by an imported module
