import builtins; builtins.__dict__.setdefault('_OLLOG', []).append(__name__)
x = __name__ + '.x-attribute-not-the-submodule'
