import builtins; builtins.__dict__.setdefault('_OLLOG', []).append(__name__)
# __all__ names submodules that this __init__ does not import: only `from ... import *` (or a '*' fromlist) loads them
__all__ = ['alpha', 'beta', 'val']
val = __name__ + '.val'
other = __name__ + '.other'
