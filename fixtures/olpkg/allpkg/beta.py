import builtins; builtins.__dict__.setdefault('_OLLOG', []).append(__name__)
val = __name__ + '.val'
other = __name__ + '.other'
